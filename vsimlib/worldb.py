"""World B — stream, disk, environment.  Serves C03, C11, C12.

SimDisk: real files in a scratch directory, plus a writer/crash model that produces what a reader can
find after a fault, as literal text.  SimEnv: a wrapper on builtins.open / io.open that substitutes
the *default* text encoding (exactly CPython's rule for `open(path)` with no encoding) and can inject
read errors.  Readers: StringIO, real text file, iterator `__next__`, str shortcut.
Simulated time = sys.monitoring JUMP events (loop back-edges) in repository code.
"""

from __future__ import annotations

import builtins
import errno
import hashlib
import io
import os
import pathlib
import signal
import sys

from . import kernel

mon = sys.monitoring
TOOL = 4

ALPHABET = ['"', "'", "(", ")", "[", "]", "{", "}", "$", "!", "?", "@", "`", "#", ":", ";", ",", ".", "=", "\\",
            "\n", "\r", "\t", "\f", " ", "\x00", "€", "é", "7", "q", "b", "f"]
HOT_CHARS = set("\"'()[]{}\\$!@`:#")


# ----------------------------------------------------------------------------------------------
# text views


def split_lf(text: str) -> list[str]:
    """Lines as StringIO delivers them: split after '\\n' only (never str.splitlines)."""
    out = text.split("\n")
    res = [ln + "\n" for ln in out[:-1]]
    if out[-1] != "":
        res.append(out[-1])
    return res


def universal(text: str) -> str:
    return text.replace("\r\n", "\n").replace("\r", "\n")


def retab(text: str) -> str | None:
    """The same text with its indentation spelled with tabs (one tab per indentation unit), or None
    if the text is not indented with a regular unit of spaces."""
    lines = text.split("\n")
    widths = sorted({len(ln) - len(ln.lstrip(" ")) for ln in lines if ln.strip() and ln.startswith(" ")})
    if not widths:
        return None
    unit = widths[0]
    if unit < 2 or any(w % unit for w in widths) or any(ln.startswith("\t") for ln in lines):
        return None
    out = []
    for ln in lines:
        w = len(ln) - len(ln.lstrip(" "))
        out.append("\t" * (w // unit) + ln[w:] if ln.strip() else ln)
    return "\n".join(out)


def respell(text: str, how: str) -> str:
    if how == "LF":
        return text
    if how == "CRLF":
        return text.replace("\n", "\r\n")
    if how == "CR":
        return text.replace("\n", "\r")
    if how == "mixed":
        parts = text.split("\n")
        seps = ["\r\n", "\n", "\r"]
        out = []
        for i, p in enumerate(parts[:-1]):
            out.append(p + seps[i % 3])
        out.append(parts[-1])
        return "".join(out)
    raise ValueError(how)


# ----------------------------------------------------------------------------------------------
# SimDisk fault model (literal contents)


def truncations(base: str):
    for k in range(len(base)):
        yield {"kind": "truncate", "at": k}, base[:k]


def flips(base: str, positions=None, alphabet=ALPHABET):
    for i in positions if positions is not None else range(len(base)):
        for sym in alphabet:
            if base[i] != sym:
                yield {"kind": "flip", "at": i, "to": sym}, base[:i] + sym + base[i + 1:]


INSERT_ALPHABET = ['"', "'", "(", "[", "{", ")", "$", "!", "?", "@", "\\", ".", "_", "0", "e", "r", "p", "u", "\n", " "]


# used by the seeded faults only: look-alikes and invisible characters, upper-case radix / exponent / prefix letters
SEEDED_EXTRA = ["\u201c", "\u2019", "\u2013", "\u2212", "\u2026", "\u00a0", "\u200b", "\ufeff", "X", "B", "O", "E", "J", "P", "R",
                "U", "F", "N", "_", "0", "x", "e", "j"]


def deletions(base: str, positions=None):
    """A lost character: the stored text with one position missing."""
    for i in positions if positions is not None else range(len(base)):
        yield {"kind": "delete", "at": i}, base[:i] + base[i + 1:]


def insertions(base: str, positions=None, alphabet=INSERT_ALPHABET):
    """A spurious character: one symbol inserted before position i (i == len(base) appends)."""
    for i in positions if positions is not None else range(len(base) + 1):
        for sym in alphabet:
            yield {"kind": "insert", "at": i, "sym": sym}, base[:i] + sym + base[i:]


def hot_positions(base: str) -> list[int]:
    """Positions in or next to in-flight tokenizer state: quotes, brackets, backslashes, sigils."""
    hot = set()
    for i, ch in enumerate(base):
        if ch in HOT_CHARS:
            hot.update(j for j in (i - 1, i, i + 1) if 0 <= j < len(base))
    return sorted(hot)


def seeded_faults(base: str, others: list[str], rng, n: int):
    lines = split_lf(base)
    hot = hot_positions(base) or list(range(len(base)))
    for _ in range(n):
        if not base:
            return
        k = rng.choice(["flip", "flip", "burst", "drop_line", "dup_line", "swap_lines", "torn", "double", "triple",
                        "trunc+flip", "insert", "insert", "delete"])
        if k == "insert":
            i = rng.choice(hot) if rng.random() < 0.6 else rng.randrange(len(base) + 1)
            sym = rng.choice(INSERT_ALPHABET + ALPHABET + SEEDED_EXTRA)
            yield {"kind": "insert", "at": i, "sym": sym}, base[:i] + sym + base[i:]
            continue
        if k == "delete":
            i = rng.choice(hot) if rng.random() < 0.6 else rng.randrange(len(base))
            yield {"kind": "delete", "at": i}, base[:i] + base[i + 1:]
            continue
        if k == "flip":
            i = rng.choice(hot) if rng.random() < 0.7 else rng.randrange(len(base))
            sym = rng.choice(ALPHABET + SEEDED_EXTRA)
            yield {"kind": "flip", "at": i, "to": sym}, base[:i] + sym + base[i + 1:]
        elif k == "burst":
            i = rng.randrange(len(base))
            n_ = rng.randrange(2, 17)
            syms = "".join(rng.choice(ALPHABET) for _ in range(n_))
            yield {"kind": "burst", "at": i, "to": syms}, base[:i] + syms + base[i + n_:]
        elif k in ("drop_line", "dup_line", "swap_lines") and len(lines) >= 2:
            j = rng.randrange(len(lines) - (1 if k == "swap_lines" else 0))
            ls = list(lines)
            if k == "drop_line":
                del ls[j]
            elif k == "dup_line":
                ls.insert(j, ls[j])
            else:
                ls[j], ls[j + 1] = ls[j + 1], ls[j]
            yield {"kind": k, "line": j}, "".join(ls)
        elif k == "torn" and others:
            new = rng.choice(others)
            sector = rng.choice([1, 2, 4, 8, 16, 64, 512])
            cut = rng.randrange(0, max(len(new), len(base)) + 1)
            cut -= cut % sector
            yield {"kind": "torn", "new": new, "cut": cut}, new[:cut] + base[cut:]
        elif k in ("double", "triple"):
            s = base
            fl = []
            for _ in range(2 if k == "double" else 3):
                if not s:
                    break
                i = rng.choice(hot_positions(s) or [0]) if rng.random() < 0.7 else rng.randrange(len(s))
                sym = rng.choice(ALPHABET)
                fl.append({"kind": "flip", "at": i, "to": sym})
                s = s[:i] + sym + s[i + 1:]
            yield {"kind": k, "faults": fl}, s
        elif k == "trunc+flip":
            cut = rng.randrange(1, len(base) + 1)
            s = base[:cut]
            i = rng.randrange(len(s))
            sym = rng.choice(ALPHABET)
            yield {"kind": k, "at": cut, "flip": i, "to": sym}, s[:i] + sym + s[i + 1:]


# ----------------------------------------------------------------------------------------------
# SimEnv


class InjectedReadError(OSError):
    pass


class FaultyFile:
    """Wraps a real text file; raises EIO at the k-th read call (readline / __next__ / read)."""

    def __init__(self, f, at_call: int, env: "SimEnv"):
        self._f = f
        self._at = at_call
        self._env = env
        self._n = 0

    def _tick(self):
        self._n += 1
        self._env.read_calls += 1
        if self._n == self._at:
            self._env.read_faults_fired += 1
            raise InjectedReadError(errno.EIO, "vsim: injected read error")

    def readline(self, *a):
        self._tick()
        return self._f.readline(*a)

    def read(self, *a):
        self._tick()
        return self._f.read(*a)

    def __iter__(self):
        return self

    def __next__(self):
        self._tick()
        return next(self._f)

    def __enter__(self):
        self._f.__enter__()
        return self

    def __exit__(self, *a):
        return self._f.__exit__(*a)

    def __getattr__(self, name):
        return getattr(self._f, name)


class SimEnv:
    def __init__(self, scratch: str):
        self.scratch = os.path.realpath(scratch)
        self.encoding = "utf-8"
        self.read_fault_at: int | None = None
        self.read_fault_open_index = 1  # which open() of a scratch file gets the faulty wrapper
        self.opens = 0
        self.default_encoding_opens = 0
        self.read_calls = 0
        self.read_faults_fired = 0
        self._real_open = builtins.open
        self._real_io_open = io.open
        self.installed = False

    def _open(self, file, mode="r", buffering=-1, encoding=None, errors=None, newline=None, closefd=True, opener=None):
        is_text = "b" not in mode
        mine = isinstance(file, str | os.PathLike) and os.path.realpath(os.fspath(file)).startswith(self.scratch + os.sep)
        if mine and is_text and "r" in mode:
            self.opens += 1
            if encoding is None:
                self.default_encoding_opens += 1
                encoding = self.encoding
        f = self._real_open(file, mode, buffering, encoding, errors, newline, closefd, opener)
        if mine and is_text and self.read_fault_at is not None and self.opens == self.read_fault_open_index:
            return FaultyFile(f, self.read_fault_at, self)
        return f

    def install(self):
        builtins.open = self._open
        io.open = self._open
        self.installed = True

    def uninstall(self):
        builtins.open = self._real_open
        io.open = self._real_io_open
        self.installed = False

    def reset_counters(self):
        self.opens = 0
        self.read_calls = 0


# ----------------------------------------------------------------------------------------------
# termination: wall-clock phase 1, simulated-step (JUMP) phase 2


class _Alarm(BaseException):
    pass


class _Budget(BaseException):
    pass


def _on_alarm(signum, frame):
    raise _Alarm()


class JumpClock:
    def __init__(self):
        self.n = 0
        self.limit = None
        self.site = None
        self.last_tick = 0

    def __call__(self, code, off, dest):
        if not kernel.is_repo_file(code.co_filename):
            return mon.DISABLE
        self.n += 1
        if self.limit is not None and self.n > self.limit:
            self.limit = None
            self.site = f"{os.path.basename(code.co_filename)}:{code.co_name}"
            raise _Budget(self.site)
        return None


_CLOCK = JumpClock()


STALL_SECONDS = 30.0


class _Stall(BaseException):
    pass


def _on_stall_alarm(signum, frame):
    """Fires every STALL_SECONDS during phase 2.  If simulated time has not advanced at all since the last tick the
    call is stuck *outside* Python-level loops (e.g. catastrophic backtracking inside the regex engine, which checks
    for signals): no step budget can ever run out, so the stall itself is the verdict."""
    if _CLOCK.n - _CLOCK.last_tick < 100:
        site = "?"
        f = frame
        while f is not None:
            if kernel.is_repo_file(f.f_code.co_filename):
                site = f"{os.path.basename(f.f_code.co_filename)}:{f.f_code.co_name}"
                break
            f = f.f_back
        raise _Stall(site)
    _CLOCK.last_tick = _CLOCK.n


def count_jumps(fn, limit=None) -> tuple[int, tuple | None]:
    """Run fn under the JUMP clock.  Returns (jumps, outcome or ('budget', site))."""
    if mon.get_tool(TOOL) is None:
        mon.use_tool_id(TOOL, "vsim")
    mon.register_callback(TOOL, mon.events.JUMP, _CLOCK)
    _CLOCK.n, _CLOCK.limit, _CLOCK.site, _CLOCK.last_tick = 0, limit, None, 0
    old = signal.signal(signal.SIGALRM, _on_stall_alarm)
    signal.setitimer(signal.ITIMER_REAL, STALL_SECONDS, STALL_SECONDS)
    mon.set_events(TOOL, mon.events.JUMP)
    mon.restart_events()
    try:
        out = fn()
    except _Budget as e:
        out = ("budget", str(e))
    except _Stall as e:
        out = ("budget", f"stalled-outside-python-loops:{e}")
    finally:
        mon.set_events(TOOL, 0)
        signal.setitimer(signal.ITIMER_REAL, 0)
        signal.signal(signal.SIGALRM, old)
    return _CLOCK.n, out


PHASE1_SECONDS = 2.0
HARD_BUDGET = 10_000_000
SLOW_MAX = [0]  # largest step count of a slow input that did terminate (evidence)


def guarded(fn, base_fn=None):
    """Two-phase termination check (DESIGN B6).  Returns (outcome, slow_flag)."""
    old = signal.signal(signal.SIGALRM, _on_alarm)
    signal.setitimer(signal.ITIMER_REAL, PHASE1_SECONDS)
    try:
        try:
            out = fn()
            return out, False
        finally:
            signal.setitimer(signal.ITIMER_REAL, 0)
    except _Alarm:
        pass
    finally:
        signal.signal(signal.SIGALRM, old)
    # Phase 2: simulated time.  The call is re-run under the JUMP clock with a flat budget of loop
    # back-edges in repository code.  A terminating parse of a pool-sized text does not approach it (the
    # heaviest seen, a 150-character `match` statement going through the diagnostic second pass, needs
    # 4.5e5) and a loop without progress always exceeds it.  A budget relative to the undamaged base was
    # tried first and gave a false alarm: a damaged text that fails takes the second pass, which can cost
    # 45 x the valid base.  Completion here is recorded as a slow input, never as a violation.
    n, out = count_jumps(fn, limit=HARD_BUDGET)
    if out and out[0] != "budget":
        SLOW_MAX[0] = max(SLOW_MAX[0], n)
    return out, True


# ----------------------------------------------------------------------------------------------
# entries


def _iter_reader(text: str, probe: dict | None = None, genref: list | None = None):
    it = iter(split_lf(text))

    def reader():
        try:
            return next(it)
        except StopIteration:
            if probe is not None and genref and genref[0] is not None and "eof" not in probe:
                fr = genref[0].gi_frame
                st = fr.f_locals.get("state") if fr is not None else None
                if st is not None:
                    probe["eof"] = {
                        "in_string": bool(st.end_progs),
                        "mode_depth": len(st.end_progs),
                        "in_bracket": st.parenlev > 0,
                        "continued": bool(st.continued),
                        "indented": len(st.indents) > 1,
                    }
            raise

    return reader


PLAIN_NAMES = False
NAME_FORMS = ["s_{h}.xsh", "s {h} copy.xsh", "s_{h}_\u00e9\u20ac.xsh", "s_{h}", "sub dir/\u00fc/s_{h}.py", ".s_{h}.xonshrc",
              "rel:s_{h}.xsh", "link:s_{h}.xsh"]


def file_path_for(scratch: str, content: str) -> pathlib.Path:
    """Where a content is stored.  The *form* of the name is drawn from the content's hash: plain, with blanks, with
    non-ASCII characters, without extension, in a sub-directory, hidden, given as a path relative to the current
    directory, or reached through a symbolic link to the directory.  (C12 lets the reported file name differ and
    nothing else.)"""
    hx = hashlib.sha1(content.encode("utf-8", "surrogatepass")).hexdigest()
    form = NAME_FORMS[int(hx[16:18], 16) % len(NAME_FORMS)] if int(hx[18:20], 16) % 4 == 0 else NAME_FORMS[0]
    if PLAIN_NAMES:
        form = NAME_FORMS[0]  # an ASCII file-system encoding (real C locale) cannot even create the other names
    name = form.format(h=hx[:16])
    if name.startswith("rel:"):
        return pathlib.Path(os.path.relpath(os.path.join(scratch, name[4:])))
    if name.startswith("link:"):
        real = os.path.join(scratch, "real_dir")
        os.makedirs(real, exist_ok=True)
        link = os.path.join(scratch, "linked_dir")
        if not os.path.islink(link):
            os.symlink(real, link)
        return pathlib.Path(link) / name[5:]
    return pathlib.Path(scratch) / name


def store(scratch: str, content: str) -> pathlib.Path:
    p = file_path_for(scratch, content)
    os.makedirs(os.path.dirname(os.path.abspath(p)), exist_ok=True)
    with builtins.open(p, "wb") as f:
        f.write(content.encode("utf-8"))
    return p


def run_entry(entry: str, content: str, scratch: str, probe: dict | None = None) -> tuple:
    """Canonical outcome of delivering `content` through `entry` (no termination guard here)."""
    from peg_parser.parser import XonshParser
    from peg_parser.tokenize import generate_tokens
    from peg_parser.tokenizer import Tokenizer

    try:
        if entry == "string:exec":
            return kernel.canon_tree(XonshParser.parse_string(content, mode="exec"))
        if entry == "string:exec:py38":
            # the same delivery to a caller that asked for an older grammar level (version-gated constructs are
            # then rejected by a check that raises outside the error builder)
            return kernel.canon_tree(XonshParser.parse_string(content, mode="exec", py_version=(3, 8)))
        if entry == "string:eval":
            return kernel.canon_tree(XonshParser.parse_string(content, mode="eval"))
        if entry == "file":
            p = store(scratch, content)
            try:
                return kernel.canon_tree(XonshParser.parse_file(p))
            finally:
                try:
                    os.unlink(p)
                except OSError:
                    pass
        if entry == "tokens:str":
            toks = list(generate_tokens(content))
            return ("ok-tokens", len(toks))
        if entry == "tokens:iter":
            genref = [None]
            gen = generate_tokens(_iter_reader(content, probe, genref))
            genref[0] = gen
            toks = list(gen)
            return ("ok-tokens", len(toks))
        if entry == "tokens:file":
            p = store(scratch, content)
            try:
                with open(p, encoding="utf-8") as f:
                    toks = list(generate_tokens(f.readline))
                return ("ok-tokens", len(toks))
            finally:
                os.unlink(p)
        if entry == "parser:iter":
            tk = Tokenizer(generate_tokens(_iter_reader(content)))
            return kernel.canon_tree(XonshParser(tk).parse("file"))
        raise kernel.HarnessError(f"unknown entry {entry}")
    except (_Alarm, _Budget, _Stall, kernel.HarnessError):
        raise
    except BaseException as e:  # noqa: BLE001
        return kernel.canon_exception(e)


def blank_filename(o: tuple) -> tuple:
    if o and o[0] == "syntax":
        return (*o[:3], "<file>", *o[4:9])  # also drops the raise site, which is not an observable
    if o and o[0] == "exc":
        return o[:3]
    return o
