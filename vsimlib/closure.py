"""Fault-closure engine shared by C03 (totality) and C11 (well-formed error reports).

Workload: every base text is stored / streamed, damaged by the SimDisk fault model (all truncations,
single-symbol replacements — exhaustive for the small bases —, bursts, line loss/duplication/
reordering, torn overwrites, multi-fault combinations), and delivered through every reader and
entry point.  The judges look at the canonical outcome of each delivery."""

from __future__ import annotations

import hashlib
import json
import os
import shutil
import sys
import tempfile
import time

from . import kernel, pool, worldb
from .kernel import SEED, Report, rng_for

TIERS = {
    "quick": {"exh_limit": 60, "exh_carriers_only": True, "seeded_per_base": 8, "batch": 500, "spell_bases": 60,
              "min_seconds": 60},
    "thorough": {"exh_limit": 200, "exh_carriers_only": False, "seeded_per_base": 150, "batch": 800,
                 "spell_bases": 100000, "min_seconds": 600},
}

TREE_ENTRIES = ("string:exec", "string:eval", "file", "parser:iter")
MAX_DAMAGED_NEST = 7


# ----------------------------------------------------------------------------------------------
# judges


def c03_judge(entry: str, content: str, o: tuple) -> str | None:
    kind = o[0]
    if kind == "ok":
        want = "Expression(" if entry == "string:eval" else "Module("
        if not o[1].startswith(want):
            return f"wrong_root|{o[1].split('(')[0]}|{entry.split(':')[0]}"
        return None
    if kind == "ok-tokens" or kind == "syntax":
        return None
    if kind == "ok-nontree":
        return f"none_result|{o[1][:20]}|{entry.split(':')[0]}"
    if kind == "exc":
        if o[1] == "TokenError":
            return None
        if o[1] == "RecursionError":
            return "exc|RecursionError|-"  # where the limit bites depends on the caller's own depth
        return f"exc|{o[1]}|{o[3]}"
    if kind == "budget":
        return f"budget|{o[1]}"
    return f"unknown|{kind}"


def c11_problems(content: str, o: tuple) -> list[str]:
    """Which clauses of C11 the SyntaxError outcome `o` breaks for the delivered `content` (lenient:
    judged against whichever newline view — raw or universal — fits best)."""
    _, _cls, msg, filename, lineno, offset, end_lineno, end_offset, text, _site = o[:10]
    common = []
    if not isinstance(msg, str) or not msg.strip():
        common.append("msg")
    if not isinstance(filename, str) or not filename:
        common.append("filename")
    best = None
    for view in (content, worldb.universal(content)):
        lines = worldb.split_lf(view)
        p = []
        n = len(lines)
        if not isinstance(lineno, int) or isinstance(lineno, bool) or not (1 <= lineno <= n + 1):
            p.append("lineno")
            if not isinstance(text, str):
                p.append("text")
        else:
            line = lines[lineno - 1] if lineno <= n else ""
            if not isinstance(offset, int) or isinstance(offset, bool) or not (1 <= offset <= len(line) + 1):
                p.append("offset")
            if not isinstance(text, str) or not text.startswith(line.rstrip("\r\n")):
                p.append("text")
        if end_lineno is None or end_offset is None:
            p.append("end_missing")
        elif isinstance(lineno, int) and isinstance(offset, int) and (end_lineno, end_offset) < (lineno, offset):
            p.append("end_before_start")
        if best is None or (len(p), "lineno" in p) < (len(best), "lineno" in best):
            best = p
    return common + (best or [])


def c11_judge(entry: str, content: str, o: tuple) -> str | None:
    if o[0] != "syntax":
        return None
    if entry == "parser:iter":
        # a Tokenizer built by hand over a bare line iterator was never given the source text, so the `text`
        # clause cannot be asked of it; C11 is judged at the public entry points (C03 still judges this entry)
        return None
    probs = c11_problems(content, o)
    if not probs:
        return None
    # keyed by the raise site (a call-site identity); which clauses are broken is reported as detail
    return f"malformed|{o[9]}"


JUDGES = {"C03": c03_judge, "C11": c11_judge}


# ----------------------------------------------------------------------------------------------
# workload


def build_bases(tier: str) -> list[dict]:
    cfg = TIERS[tier]
    texts = pool.build_pool()
    carriers = set(pool.CARRIERS) | {t for pair in pool.PREFIX_SHARING + pool.ALIASING for t in pair}
    bases = []
    for rel, content in pool.data_files(800):
        if content and content not in texts:
            texts.append(content)
    texts.extend(pool.LONG_TOKENS)
    texts.extend(pool.glued_words())
    for t in sorted(set(texts)):
        bases.append({"text": t, "spelling": "LF", "carrier": t in carriers})
    # newline spellings and missing final newline for multi-line bases
    multi = [b for b in bases if b["text"].count("\n") >= 2][: cfg["spell_bases"]]
    extra = []
    for b in multi:
        for how in ("CRLF", "CR", "mixed"):
            extra.append({"text": worldb.respell(b["text"], how), "spelling": how, "carrier": False})
    # the same record stored further down a file: after 7 and after 9 lines (valid statements, blank lines, a
    # comment line, a multi-line bracket and a multi-line string), so that errors are reported on later lines and
    # next to lines that start no token
    for b in [x for x in bases if x["carrier"]]:
        for k in (7, 9):
            extra.append({"text": pool.padded(b["text"], k), "spelling": f"LF+{k}", "carrier": False})
    # multi-byte characters to the left of the record on its first line
    for b in [x for x in bases if x["carrier"]]:
        w = pool.widened(b["text"])
        if w is not None:
            extra.append({"text": w, "spelling": "LF+wide", "carrier": False})
    # indentation spelled with tabs (a storage convention like the newline spelling)
    n_tab = 0
    for b in bases:
        if "\n " in b["text"] and (b["carrier"] or n_tab < cfg["spell_bases"]):
            t = worldb.retab(b["text"])
            if t is not None and t != b["text"]:
                extra.append({"text": t, "spelling": "TAB", "carrier": b["carrier"]})
                n_tab += not b["carrier"]
    for t in pool.deep_valid():
        extra.append({"text": t, "spelling": "LF", "carrier": False, "deep": True})
    # long records: data files of 800-5000 bytes and a block indented 14 levels deep; cut after every line and damaged
    # at seeded places (not at every character: a parse of 5 kB takes tens of milliseconds)
    for _rel, content in pool.data_files(5000):
        if len(content) > 800 and pool._nesting(content) <= pool.MAX_NEST:
            extra.append({"text": content, "spelling": "LF", "carrier": False, "long": True})
    ladder = "".join("    " * i + f"if a{i}:\n" for i in range(14)) + "    " * 14 + "x = (1,\n" + "    " * 14 + " 2)\n" + \
        "".join("    " * i + f"b{i} = {i}\n" for i in range(13, 0, -1))
    extra.append({"text": ladder, "spelling": "LF", "carrier": False, "long": True})
    seen = set()
    out = []
    for b in bases + extra:
        if b["text"] not in seen:
            seen.add(b["text"])
            out.append(b)
    return out


def sampled_entries(content: str, base_is_expr: bool) -> list[str]:
    h = int(hashlib.sha1(content.encode("utf-8", "surrogatepass")).hexdigest()[:8], 16)
    entries = ["string:exec", "file"]
    if h % 10 == 0:
        entries.append("tokens:iter")
    if h % 10 == 1:
        entries.append("parser:iter")
    if h % 20 == 2:
        entries.append("tokens:file")
    if h % 20 == 3:
        entries.append("tokens:str")
    if base_is_expr and h % 3 == 0:
        entries.append("string:eval")
    if h % 8 == 5:
        entries.append("string:exec:py38")
    return entries


def enumerate_task(task: dict):
    """Yield (fault description, damaged content) for one batch task."""
    base = task["base"]
    part = task["part"]
    if part == "base":
        yield {"kind": "none"}, base
    elif part == "trunc":
        yield from worldb.truncations(base)
    elif part == "trunc_lines":
        pos = 0
        for ln in worldb.split_lf(base)[:-1]:
            pos += len(ln)
            yield {"kind": "truncate", "at": pos}, base[:pos]
            if len(ln) > 3:
                yield {"kind": "truncate", "at": pos - 2}, base[: pos - 2]
    elif part == "flips":
        lo, hi = task["range"]
        yield from worldb.flips(base, range(lo, hi))
    elif part == "edits":
        lo, hi = task["range"]
        yield from worldb.deletions(base, range(lo, min(hi, len(base))))
        yield from worldb.insertions(base, range(lo, hi if hi < len(base) else len(base) + 1))
    elif part == "seeded":
        rng = rng_for(SEED, "closure", task["base_index"], "seeded")
        yield from worldb.seeded_faults(base, task["others"], rng, task["n"])


def build_tasks(tier: str, bases: list[dict]) -> list[dict]:
    cfg = TIERS[tier]
    tasks = []
    texts = [b["text"] for b in bases]
    for bi, b in enumerate(bases):
        t = b["text"]
        is_expr = pool.looks_like_expression(t)
        common = {"base": t, "base_index": bi, "is_expr": is_expr, "spelling": b["spelling"], "deep": bool(b.get("deep"))}
        tasks.append({**common, "part": "base"})
        tasks.append({**common, "part": "trunc"})
        if b.get("deep"):
            continue
        if b.get("long"):
            tasks[-1] = {**common, "part": "trunc_lines"}
            rng = rng_for(SEED, "closure", bi, "others")
            tasks.append({**common, "part": "seeded", "others": [rng.choice(texts) for _ in range(2)], "n": 40})
            continue
        exhaustive = len(t) <= cfg["exh_limit"] and (b["carrier"] or not cfg["exh_carriers_only"])
        if exhaustive:
            step = max(1, cfg["batch"] // len(worldb.ALPHABET))
            for lo in range(0, len(t), step):
                tasks.append({**common, "part": "flips", "range": [lo, min(len(t), lo + step)]})
                # the other two single edits: one character lost, one spurious character inserted
                tasks.append({**common, "part": "edits", "range": [lo, min(len(t), lo + step)]})
        rng = rng_for(SEED, "closure", bi, "others")
        others = [rng.choice(texts) for _ in range(4)]
        tasks.append({**common, "part": "seeded", "others": others, "n": cfg["seeded_per_base"] * (1 if exhaustive else 2)})
    return tasks


def merge_small_tasks(tasks: list[dict], target: int) -> list[list[dict]]:
    """Group tasks into batches of roughly `target` contents so that fork cost is amortised."""
    def est(t):
        if t["part"] == "base":
            return 1
        if t["part"] == "trunc":
            return len(t["base"])
        if t["part"] == "trunc_lines":
            return 40 * t["base"].count("\n")  # long texts: each delivery costs tens of milliseconds
        if t["part"] == "flips":
            return (t["range"][1] - t["range"][0]) * (len(worldb.ALPHABET) - 1)
        if t["part"] == "edits":
            return (t["range"][1] - t["range"][0]) * (len(worldb.INSERT_ALPHABET) + 1)
        return t["n"]

    batches, cur, size = [], [], 0
    for t in tasks:
        cur.append(t)
        size += est(t)
        if size >= target:
            batches.append(cur)
            cur, size = [], 0
    if cur:
        batches.append(cur)
    return batches


# ----------------------------------------------------------------------------------------------
# execution


def _msg_template(msg: object) -> str:
    """Error message with its variable parts blanked (reach probe: which diagnostics were exercised)."""
    import re

    m = str(msg)
    m = re.sub(r"'[^']*'", "'_'", m)
    m = re.sub(r"\d+", "N", m)
    return m[:80]


def deliver(entry: str, content: str, base: str, scratch: str, probe: dict | None = None):
    """Outcome of one delivery under the two-phase termination guard."""
    return worldb.guarded(lambda: worldb.run_entry(entry, content, scratch, probe),
                          lambda: worldb.run_entry(entry, base, scratch))


def run_batch(batch: dict) -> dict:
    """Runs in a forked child.  batch = {"prop": ..., "tasks": [...]}"""
    kernel.setup_repo_import()
    import warnings

    warnings.simplefilter("ignore")
    sys.stdout = type("S", (), {"write": lambda s, x: len(x), "flush": lambda s: None})()
    judge = JUDGES[batch["prop"]]
    scratch = tempfile.mkdtemp(prefix="vsim-b-")
    res = {
        "deliveries": 0, "contents": 0, "distinct": set(), "outcome_kinds": {}, "fault_kinds": {}, "entries": {},
        "syntax_errors": 0, "violations": [], "slow": 0, "eof_probe": {}, "syntax_sites": {}, "samples": [],
        "cut_short": False, "skipped_deep_nesting": 0, "messages": set(),
    }
    env = worldb.SimEnv(scratch)
    env.install()
    try:
        budget_hits = 0
        for task in batch["tasks"]:
            base = task["base"]
            for fault, content in enumerate_task(task):
                if content == base and fault["kind"] != "none":
                    continue
                if budget_hits >= 3 or os.path.exists(batch["abort_flag"]):
                    # circuit breaker: every further non-terminating input costs a full budget; the
                    # violation is already established, so the rest of the batch is skipped (and said so)
                    res["cut_short"] = True
                    break
                if pool._nesting(content) > MAX_DAMAGED_NEST and not task.get("deep"):
                    # the diagnostic second pass is exponential in list-display nesting (3x per level; depth 8 with an
                    # error takes 2 s, depth 10 needs 1.3e7 back-edges, and both still terminate): beyond this depth a step budget could
                    # not tell slow from stuck, so such contents are out of scope and counted
                    res["skipped_deep_nesting"] += 1
                    continue
                h = hashlib.sha1(content.encode("utf-8", "surrogatepass")).digest()[:10]
                if h in res["distinct"]:
                    continue
                res["distinct"].add(h)
                res["contents"] += 1
                res["fault_kinds"][fault["kind"]] = res["fault_kinds"].get(fault["kind"], 0) + 1
                if len(res["samples"]) < 2 and fault["kind"] not in ("none",):
                    res["samples"].append({"base": base, "fault": fault, "content": content})
                for entry in sampled_entries(content, task["is_expr"]):
                    probe = {} if entry == "tokens:iter" else None
                    o, slow = deliver(entry, content, base, scratch, probe)
                    res["deliveries"] += 1
                    res["slow"] += slow
                    res["entries"][entry] = res["entries"].get(entry, 0) + 1
                    ok = o[0] if o[0] != "exc" else f"exc:{o[1]}"
                    res["outcome_kinds"][ok] = res["outcome_kinds"].get(ok, 0) + 1
                    if probe and "eof" in probe:
                        for k, v in probe["eof"].items():
                            if v is True or (k == "mode_depth" and v >= 2):
                                res["eof_probe"][k] = res["eof_probe"].get(k, 0) + 1
                    if o[0] == "syntax":
                        res["syntax_errors"] += 1
                        res["syntax_sites"][o[9]] = res["syntax_sites"].get(o[9], 0) + 1
                        res["messages"].add(_msg_template(o[2]))
                    key = judge(entry, content, o)
                    if o[0] == "budget":
                        budget_hits += 1
                    if key is not None:
                        res["violations"].append({"key": key, "entry": entry, "content": content, "fault": fault,
                                                  "base": base, "outcome": o, "spelling": task["spelling"]})
        res["slow_max_steps"] = worldb.SLOW_MAX[0]
        res["second_opens"] = env.opens
        res["default_encoding_opens"] = env.default_encoding_opens
    finally:
        env.uninstall()
        shutil.rmtree(scratch, ignore_errors=True)
    # keep only the smallest example per key in the report, but count all
    per_key: dict[str, dict] = {}
    counts: dict[str, int] = {}
    for v in res["violations"]:
        counts[v["key"]] = counts.get(v["key"], 0) + 1
        cur = per_key.get(v["key"])
        if cur is None or len(v["content"]) < len(cur["content"]):
            per_key[v["key"]] = v
    res["violations"] = list(per_key.values())
    res["violation_counts"] = counts
    res["distinct"] = len(res["distinct"])
    res["messages"] = sorted(res["messages"])
    return res


def key_of(prop: str, entry: str, content: str, base: str | None = None) -> tuple[str | None, tuple]:
    """Violation key (or None) of delivering `content` through `entry` — used by minimiser and replay."""
    scratch = tempfile.mkdtemp(prefix="vsim-b-")
    try:
        o, _ = deliver(entry, content, base if base is not None else content, scratch)
    finally:
        shutil.rmtree(scratch, ignore_errors=True)
    return JUDGES[prop](entry, content, o), o


def _minimise_child(args: dict) -> dict:
    """ddmin over the characters of the content, keeping the same violation key (runs in a child)."""
    kernel.setup_repo_import()
    import warnings

    warnings.simplefilter("ignore")
    prop, entry, content, key = args["prop"], args["entry"], args["content"], args["key"]
    deadline = time.monotonic() + args["seconds"]
    tests = 0

    def bad(s: str) -> bool:
        nonlocal tests
        tests += 1
        return key_of(prop, entry, s)[0] == key

    n = 2
    while len(content) >= 2 and time.monotonic() < deadline:
        chunk = max(1, len(content) // n)
        reduced = False
        for start in range(0, len(content), chunk):
            cand = content[:start] + content[start + chunk:]
            if bad(cand):
                content, n, reduced = cand, max(n - 1, 2), True
                break
            if time.monotonic() > deadline:
                break
        if not reduced:
            if chunk == 1:
                break
            n = min(len(content), n * 2)
    # simplify characters: non-ascii / unusual -> 'a' where the violation persists
    for i, ch in enumerate(content):
        if time.monotonic() > deadline:
            break
        if not (ch.isascii() and (ch.isalnum() or ch in " \n")):
            continue
        if ch not in "a1 \n" and bad(content[:i] + "a" + content[i + 1:]):
            content = content[:i] + "a" + content[i + 1:]
    return {"content": content, "tests": tests, "outcome": key_of(prop, entry, content)[1]}


# ----------------------------------------------------------------------------------------------
# the check


def check(prop: str, tier: str, evidence_text: dict) -> int:
    t0 = time.monotonic()
    cfg = TIERS[tier]
    print(f"VERIF_SEED={SEED} property={prop} tier={tier} jobs={kernel.JOBS} repo={kernel.REPO}")
    kernel.setup_repo_import()
    bases = build_bases(tier)
    tasks = build_tasks(tier, bases)
    flag_dir = tempfile.mkdtemp(prefix="vsim-flag-")
    abort_flag = os.path.join(flag_dir, "abort")
    batches = [{"prop": prop, "tasks": b, "abort_flag": abort_flag} for b in merge_small_tasks(tasks, cfg["batch"])]
    print(f"{len(bases)} bases ({sum(len(b['text']) for b in bases)} chars), {len(tasks)} tasks in {len(batches)} batches")
    report = Report(prop)
    agg = {"deliveries": 0, "contents": 0, "distinct": 0, "outcome_kinds": {}, "fault_kinds": {}, "entries": {},
           "syntax_errors": 0, "slow": 0, "eof_probe": {}, "syntax_sites": {}, "second_opens": 0,
           "default_encoding_opens": 0, "skipped_deep_nesting": 0}
    samples = []
    examples: dict[str, dict] = {}
    tr = time.monotonic()
    cut_short = budget_seen = slow_max = 0
    messages: set[str] = set()
    def results():
        """A batch that fell to the wall-clock safety net (many slow contents in one batch on a loaded machine) is
        repeated once, alone, with a longer guard; a time-out is never a pass and never a violation."""
        again = []
        for idx, (status, res) in kernel.run_tasks(run_batch, batches, wall_timeout=1800.0):
            if status == "harness-timeout" and len(again) < 4:
                again.append(idx)
                continue
            yield idx, (status, res)
        for idx in again:
            yield idx, kernel.run_in_child(run_batch, batches[idx], 7200.0)

    for idx, (status, res) in results():
        if status != "ok":
            report.harness(f"batch {idx}: {status}: {res}")
            continue
        for k in ("deliveries", "contents", "distinct", "syntax_errors", "slow", "second_opens", "default_encoding_opens",
                  "skipped_deep_nesting"):
            agg[k] += res[k]
        for k in ("outcome_kinds", "fault_kinds", "entries", "eof_probe", "syntax_sites"):
            for kk, vv in res[k].items():
                agg[k][kk] = agg[k].get(kk, 0) + vv
        if len(samples) < 6:
            samples.extend(res["samples"][:1])
        messages.update(res["messages"])
        cut_short += bool(res["cut_short"])
        slow_max = max(slow_max, res.get("slow_max_steps", 0))
        budget_seen += sum(n for k, n in res["violation_counts"].items() if k.startswith("budget|"))
        if budget_seen >= 8 and not os.path.exists(abort_flag):
            open(abort_flag, "w").close()
        for v in res["violations"]:
            n = res["violation_counts"][v["key"]]
            report.counts[v["key"]] = report.counts.get(v["key"], 0) + n - 1
            detail = {"entry": v["entry"], "content": v["content"], "outcome": kernel.short(v["outcome"], 200)}
            if prop == "C11":
                detail["broken_clauses"] = c11_problems(v["content"], v["outcome"])
            report.add(v["key"], {"size": len(v["content"]), "summary": detail})
            cur = examples.get(v["key"])
            if cur is None or (len(v["content"]), v["content"], v["entry"]) < (len(cur["content"]), cur["content"], cur["entry"]):
                examples[v["key"]] = v
    run_s = time.monotonic() - tr
    shutil.rmtree(flag_dir, ignore_errors=True)
    if cut_short:
        print(f"note: {cut_short} batches were cut short by the non-termination circuit breaker")

    # minimise unknown violation classes (content-level ddmin), bounded in time
    tm = time.monotonic()
    minimised = {}
    for key in sorted(report.violations, key=lambda k: (len(examples[k]["content"]), k)):
        v = examples[key]
        left = cfg["min_seconds"] - (time.monotonic() - tm)
        if left > 3:
            st, r = kernel.run_in_child(_minimise_child, {"prop": prop, "entry": v["entry"], "content": v["content"],
                                                         "key": key, "seconds": min(20.0, left)}, 120.0)
            if st == "ok":
                minimised[key] = r

    def build_replay(key, ex):
        v = examples[key]
        m = minimised.get(key)
        return {
            "provenance": {"VERIF_SEED": SEED, "tier": tier, "minimiser_tests": m["tests"] if m else 0},
            "base": v["base"], "faults": [v["fault"]], "original_content": v["content"],
            "content": m["content"] if m else v["content"],
            "newline": v["spelling"], "encoding_env": "utf-8", "entry": v["entry"], "read_fault": None,
            "violation": {"kind": key.split("|")[0], "key": key, "got": m["outcome"] if m else v["outcome"]},
        }

    rc = report.finish(build_replay)
    wall = time.monotonic() - t0
    exhaustive_bases = sum(1 for t in tasks if t["part"] == "flips")
    coverage = {
        "evaluations": agg["deliveries"],
        "distinct_nontrivial": agg["distinct"],
        "rule": evidence_text["rule"],
        "samples": samples,
        "damaged_contents_distinct_per_batch_sum": agg["distinct"],
        "bases": len(bases),
        "base_chars": sum(len(b["text"]) for b in bases),
        "exhaustive": False,
        "exhaustive_subspace": {
            "what": f"all truncation offsets of every base; all single-symbol replacements over the {len(worldb.ALPHABET)}-"
                    f"symbol alphabet, all single deletions and all single insertions over a {len(worldb.INSERT_ALPHABET)}-symbol "
                    f"alphabet for {'carrier/family' if cfg['exh_carriers_only'] else 'all'} bases of at most "
                    f"{cfg['exh_limit']} characters",
            "flip_tasks": exhaustive_bases,
            "truncations": agg["fault_kinds"].get("truncate", 0),
            "single_replacements": agg["fault_kinds"].get("flip", 0),
            "single_deletions": agg["fault_kinds"].get("delete", 0),
            "single_insertions": agg["fault_kinds"].get("insert", 0),
        },
        "faults_fired_by_kind": agg["fault_kinds"],
        "deliveries_by_entry": agg["entries"],
        "outcome_kinds": agg["outcome_kinds"],
        "syntax_errors_seen": agg["syntax_errors"],
        "syntax_error_raise_sites": agg["syntax_sites"],
        "distinct_diagnostic_messages_seen": len(messages),
        "diagnostic_messages_sample": sorted(messages)[:40],
        "eof_injected_while": agg["eof_probe"],
        "slow_inputs_rechecked_under_step_clock": agg["slow"],
        "batches_cut_short_by_nontermination_breaker": cut_short,
        "largest_step_count_of_a_slow_input_that_terminated": slow_max,
        "step_budget": worldb.HARD_BUDGET,
        "contents_skipped_for_bracket_nesting_above_7": agg["skipped_deep_nesting"],
        "file_opens_observed": agg["second_opens"],
        "default_encoding_opens": agg["default_encoding_opens"],
        "contents_per_hour": round(agg["contents"] / max(run_s, 1e-9) * 3600),
        "deliveries_per_hour": round(agg["deliveries"] / max(run_s, 1e-9) * 3600),
        "seeds": f"VERIF_SEED={SEED}; seeded faults of base i use Random('{SEED}/closure/i/seeded')",
        "violation_classes": sorted(report.violations),
        "known_finding_classes": sorted(report.known_hits),
        "known_finding_counts": {k: report.counts[k] for k in sorted(report.known_hits)},
        "harness_problems": len(report.harness_problems),
        "components": {
            "real": ["peg_parser.* (tokenizer, parser)", "io.StringIO / real files / io.TextIOWrapper decoding and newline translation"],
            "stub": ["crash model of the writer (literal damaged contents)", "default-encoding substitution in open() (unused unless the repo omits encoding=)"],
        },
    }
    kernel.write_evidence(prop, tier, evidence_text["level"], coverage, evidence_text["assumptions"], wall,
                          len(report.violations))
    print(f"{prop} {tier}: {agg['contents']} damaged contents, {agg['deliveries']} deliveries, "
          f"{agg['syntax_errors']} syntax errors, {len(report.violations)} violation classes, "
          f"{len(report.known_hits)} known, wall {wall:.1f}s, exit {rc}")
    return rc


def replay(prop: str, path: str) -> int:
    with open(path, encoding="utf-8") as f:
        data = json.load(f)
    kernel.setup_repo_import()
    key = data["violation"]["key"]
    st, r = kernel.run_in_child(lambda a: key_of(prop, a["entry"], a["content"], a.get("base")), data, 300.0)
    if st != "ok":
        print(f"HARNESS: {st}: {r}")
        return 2
    got, o = r
    if got == key:
        print(f"REPRODUCED {key}\n  content: {data['content']!r}\n  entry:   {data['entry']}\n  outcome: {kernel.short(o, 500)}")
        return 1
    print(f"NOT-REPRODUCED {key}; now: {got} {kernel.short(o, 300)}")
    return 0
