"""One short sentence per grammar alternative, derived from the working tree's own grammar.

C03's and C11's quantifiers range over "prefixes and single edits of valid Python and xonsh programs" and over "errors
raised by the specialised invalid_* diagnostics".  The test corpus samples those unevenly, so the base set of the fault
closure (and the op pool of World A) is completed from `tasks/xonsh.gram` itself: for every rule and every alternative,
the alternative is expanded with the shortest expansion of each symbol and embedded in the shortest context that leads
from the start rule to it.  Alternatives of `invalid_*` rules give inputs that reach the corresponding diagnostic.
This only *chooses bases*; what is judged is still how the parser behaves on the stored / damaged / interleaved text.
"""

from __future__ import annotations

import heapq
import os

from .kernel import REPO

TERMINALS = {
    "NAME": ["x"], "NUMBER": ["1"], "STRING": ["'s'"], "NEWLINE": ["\n"], "INDENT": ["<INDENT>"], "DEDENT": ["<DEDENT>"],
    "ENDMARKER": [], "FSTRING_START": ["f'"], "FSTRING_MIDDLE": ["m"], "FSTRING_END": ["'"], "SEARCH_PATH": ["`a`"],
    "MACRO_PARAM": ["p"], "WS": [" "], "TYPE_COMMENT": ["# type: int"], "ANY_TOKEN": ["y"], "KEYWORD": ["if"],
    "SOFT_KEYWORD": ["match"], "OP": ["+"], "ERRORTOKEN": ["\x00"], "COMMENT": ["# c"], "NL": ["\n"], "ASYNC": ["async"],
    "AWAIT": ["await"],
}
MAX_SENTENCE = 160


def _load_grammar():
    from pegen.build import build_parser

    grammar, _, _ = build_parser(os.path.join(REPO, "tasks", "xonsh.gram"))
    return grammar


class _Gen:
    def __init__(self, grammar):
        from pegen import grammar as g

        self.g = g
        self.rules = grammar.rules
        self.short: dict[str, list[str] | None] = {name: None for name in self.rules}
        self._fix_shortest()

    # -- shortest expansion of every rule (fixpoint on length) --
    def _item(self, item) -> list[str] | None:
        g = self.g
        if isinstance(item, g.NamedItem):
            return self._item(item.item)
        if isinstance(item, g.StringLeaf):
            return [item.value[1:-1]]
        if isinstance(item, g.NameLeaf):
            if item.value in self.rules:
                return self.short[item.value]
            return TERMINALS.get(item.value, [item.value.lower()])
        if isinstance(item, g.Opt | g.Repeat0 | g.Lookahead | g.Cut):
            return []
        if isinstance(item, g.Repeat1):
            return self._item(item.node)
        if isinstance(item, g.Gather):
            return self._item(item.node)
        if isinstance(item, g.Group):
            return self._rhs(item.rhs)
        if isinstance(item, g.Forced):
            return self._item(item.node)
        if isinstance(item, g.Rhs):
            return self._rhs(item)
        return []

    def _alt(self, alt) -> list[str] | None:
        out: list[str] = []
        for it in alt.items:
            e = self._item(it)
            if e is None:
                return None
            out += e
        return out

    def _rhs(self, rhs) -> list[str] | None:
        best = None
        for alt in rhs.alts:
            e = self._alt(alt)
            if e is not None and (best is None or len(e) < len(best)):
                best = e
        return best

    def _fix_shortest(self):
        changed = True
        while changed:
            changed = False
            for name, rule in self.rules.items():
                if name.startswith("invalid_"):
                    continue  # never the shortest way to write something valid
                e = self._rhs(rule.rhs)
                if e is not None and (self.short[name] is None or len(e) < len(self.short[name])):
                    self.short[name] = e
                    changed = True
        for name, rule in self.rules.items():
            if name.startswith("invalid_") and self.short[name] is None:
                self.short[name] = self._rhs(rule.rhs)

    # -- richer expansion of one alternative: optional parts and repeats are written out once --
    def _item_full(self, item, depth=0) -> list[str] | None:
        g = self.g
        if isinstance(item, g.NamedItem):
            return self._item_full(item.item, depth)
        if isinstance(item, g.Opt):
            return self._item_full(item.node, depth) if depth < 2 else []
        if isinstance(item, g.Repeat0 | g.Repeat1):
            return self._item_full(item.node, depth + 1) if depth < 2 else self._item(item)
        if isinstance(item, g.Gather):
            a = self._item_full(item.node, depth + 1)
            sep = self._item(item.separator)
            if a is None or sep is None:
                return a
            return a + sep + a if depth < 1 else a
        if isinstance(item, g.Group):
            return self._rhs(item.rhs)
        if isinstance(item, g.Forced):
            return self._item_full(item.node, depth)
        return self._item(item)

    def alt_full(self, alt) -> list[str] | None:
        out: list[str] = []
        for it in alt.items:
            e = self._item_full(it)
            if e is None:
                return None
            out += e
        return out

    # -- shortest context from the start rule to every rule --
    def contexts(self, start="file") -> dict[str, tuple[list[str], list[str]]]:
        g = self.g
        # edges: parent rule -> (child rule, left tokens, right tokens)
        edges: dict[str, list[tuple[str, list[str], list[str]]]] = {n: [] for n in self.rules}

        def children(item):
            """(child rule name, wrapper-left, wrapper-right) reachable inside one item."""
            if isinstance(item, g.NamedItem):
                yield from children(item.item)
            elif isinstance(item, g.NameLeaf):
                if item.value in self.rules:
                    yield item.value, [], []
            elif isinstance(item, g.Opt | g.Repeat0 | g.Repeat1 | g.Forced):
                yield from children(item.node)
            elif isinstance(item, g.Gather):
                yield from children(item.node)
            elif isinstance(item, g.Group | g.Rhs):
                rhs = item.rhs if isinstance(item, g.Group) else item
                for alt in rhs.alts:
                    for i, it in enumerate(alt.items):
                        left = self._seq(alt.items[:i])
                        right = self._seq(alt.items[i + 1:])
                        if left is None or right is None:
                            continue
                        for c, l2, r2 in children(it):
                            yield c, left + l2, r2 + right

        for pname, rule in self.rules.items():
            if pname.startswith("invalid_"):
                continue  # a context must be a valid program: no path leads *through* a diagnostic rule
            for alt in rule.rhs.alts:
                for i, it in enumerate(alt.items):
                    if isinstance(it.item, g.Lookahead | g.Cut):
                        continue
                    left = self._seq(alt.items[:i])
                    right = self._seq(alt.items[i + 1:])
                    if left is None or right is None:
                        continue
                    for c, l2, r2 in children(it):
                        edges[pname].append((c, left + l2, r2 + right))
        dist = {start: 0}
        ctx: dict[str, tuple[list[str], list[str]]] = {start: ([], [])}
        heap = [(0, start)]
        while heap:
            d, u = heapq.heappop(heap)
            if d > dist.get(u, 1 << 30):
                continue
            for c, left, right in edges.get(u, []):
                nd = d + len(left) + len(right)
                if nd < dist.get(c, 1 << 30):
                    dist[c] = nd
                    ctx[c] = (ctx[u][0] + left, right + ctx[u][1])
                    heapq.heappush(heap, (nd, c))
        return ctx

    def _seq(self, items) -> list[str] | None:
        out: list[str] = []
        for it in items:
            e = self._item(it)
            if e is None:
                return None
            out += e
        return out


def render(tokens: list[str]) -> str:
    """Tokens to text: blanks between tokens, NEWLINE/INDENT/DEDENT turned into layout."""
    out: list[str] = []
    level = 0
    at_line_start = True
    in_fstring = False
    for t in tokens:
        if t == "<INDENT>":
            level += 1
            continue
        if t == "<DEDENT>":
            level = max(0, level - 1)
            continue
        if t == "\n":
            out.append("\n")
            at_line_start = True
            continue
        if at_line_start:
            out.append("    " * level)
            at_line_start = False
        elif not in_fstring and out and not out[-1].endswith((" ", "\n")) and t not in (" ",):
            out.append(" ")
        out.append(t)
        if t == "f'":
            in_fstring = True
        elif t == "'" and in_fstring:
            in_fstring = False
    text = "".join(out)
    return text if text.endswith("\n") else text + "\n"


_CACHE: list[str] | None = None


def sentences() -> list[str]:
    """Sorted, de-duplicated sentences (one per rule alternative, in its shortest context)."""
    global _CACHE
    if _CACHE is not None:
        return _CACHE
    gen = _Gen(_load_grammar())
    ctx = gen.contexts("file")
    out: set[str] = set()
    for name, rule in gen.rules.items():
        if name not in ctx:
            continue
        left, right = ctx[name]
        for alt in rule.rhs.alts:
            for body in (gen._alt(alt), gen.alt_full(alt)):
                if body is None:
                    continue
                text = render(left + body + right)
                if 0 < len(text) <= MAX_SENTENCE:
                    out.add(text)
    _CACHE = sorted(out)
    return _CACHE
