"""Input pool, assembled at run time from the working tree's tests (never imported, only read with
`ast`) plus synthetic families aimed at leakage (DESIGN 3.2) and at in-flight tokenizer state
(DESIGN 3.3)."""

from __future__ import annotations

import ast
import os

from .kernel import REPO

MAX_LEN = 400
MAX_NEST = 8


def _nesting(text: str) -> int:
    depth = best = 0
    for ch in text:
        if ch in "([{":
            depth += 1
            best = max(best, depth)
        elif ch in ")]}":
            depth = max(0, depth - 1)
    return best


def _ok_text(t: str) -> bool:
    return 0 < len(t) <= MAX_LEN and _nesting(t) <= MAX_NEST and "\x00" not in t


def _statements_of(path: str) -> list[str]:
    with open(path, encoding="utf-8") as f:
        src = f.read()
    out = []
    try:
        mod = ast.parse(src)
    except SyntaxError:
        return [src] if _ok_text(src) else []
    lines = src.split("\n")
    for st in mod.body:
        first = min([st.lineno] + [d.lineno for d in getattr(st, "decorator_list", [])])
        seg = "\n".join(lines[first - 1 : st.end_lineno]) + "\n"
        out.append(seg)
    if _ok_text(src):
        out.append(src)
    return out


def _xonsh_cases(path: str) -> list[str]:
    out = []
    with open(path, encoding="utf-8") as f:
        for line in f:
            if line.startswith("# ") and len(line) > 3:
                out.append(line[2:].rstrip("\n"))
    return out


def _param_strings(path: str) -> list[str]:
    """String constants inside pytest.mark.parametrize(...) argument lists of a test module."""
    with open(path, encoding="utf-8") as f:
        try:
            mod = ast.parse(f.read())
        except SyntaxError:
            return []
    out = []
    for node in ast.walk(mod):
        if isinstance(node, ast.Call) and isinstance(node.func, ast.Attribute) and node.func.attr == "parametrize":
            for arg in node.args[1:]:
                for sub in ast.walk(arg):
                    if isinstance(sub, ast.Constant) and isinstance(sub.value, str):
                        out.append(sub.value)
    return out


# -- synthetic families ------------------------------------------------------------------------

PREFIX_SHARING = [
    ("z = 1\n", "z = 2\n"),
    ("x = a + b\n", "x = a - b\n"),
    ("f(a, b)\n", "f(a, b=1)\n"),
    ("x = [1, 2, 3]\n", "x = [1, 2, 3)\n"),
    ("if a:\n    b = 1\n", "if a:\n    b = 2\nelse:\n    c\n"),
    ("$(ls -l)\n", "$(ls -a)\n"),
    ("print(f'{a}')\n", "print(f'{b}')\n"),
    ("for i in x: pass\n", "for i in y: pass\n"),
    ("a.b.c = 1\n", "a.b.c\n"),
    ("with open(f) as g: pass\n", "with open(f) as g, h: pass\n"),
    ("lambda x: x\n", "lambda x, y: x\n"),
    ("x = {1: 2}\n", "x = {1, 2}\n"),
]

ALIASING = [
    ("x\n", "x = 1\n"),
    ("x\n", "del x\n"),
    ("(a, b)\n", "(a, b) = c\n"),
    ("[a, b]\n", "[a, b] = c\n"),
    ("a.b\n", "a.b = 1\n"),
    ("a[0]\n", "a[0] = 1\n"),
    ("a[0]\n", "del a[0]\n"),
    ("*a, b\n", "*a, b = c\n"),
    ("x\n", "for x in y: pass\n"),
    ("x\n", "with y as x: pass\n"),
    ("(x)\n", "(x) = 1\n"),
    ("$x\n", "$x = 1\n"),
    ("${'x'}\n", "${'x'} = 1\n"),
    ("x\n", "x += 1\n"),
    ("x\n", "x: int = 1\n"),
    ("x\n", "(x := 1)\n"),
]

CARRIERS = [
    # call macros, with macros, subprocess macros
    "f!(x, y)\n",
    "f!(if True:\n  pass)\n",
    "g!(a b c, [1, 2)\n",
    "f!(x)(y)\n",
    "with! ctx:\n    a b c\n    d e\n",
    "with! ctx: a b c\n",
    "with! ctx as y:\n    x = 1\nz = 2\n",
    "$[echo! a  b   c]\n",
    "![echo! 'x' y]\n",
    "$(echo! $HOME && ls)\n",
    # macro bodies whose raw text is captured from token lines: multi-line strings, brackets, continuations, comments
    "with! ctx:\n    x = '''a\n  b\n'''\n    y\n",
    "with! ctx:\n    f(1,\n      2)\n\n    # c\n    z = \\\n        3\n",
    "with! ctx:\n\tif a:\n\t\tb\n\tc\nd\n",
    "f!(x = '''a\nb''', [1,\n 2])\n",
    "$[echo! '''a\nb''' c]\n",
    "with! a as b: '''x\ny'''\n",
    # path literals
    "p'/tmp/x'\n",
    "pf'/tmp/{x}'\n",
    "pr'/tmp/\\x'\n",
    "pf'{a}' 'b'\n",
    "x = pf'/a/{b}/c' / 'd'\n",
    "pf'{a}{b!r:>{w}}'\n",
    # f-strings with nested specs
    "f'{x:{y}}'\n",
    "f'{x!r:^{w}.{p}}'\n",
    "f'''a\n{b}\nc'''\n",
    "f'{a}' f'{b}' 'c'\n",
    "f'{ {1: 2}[1] }'\n",
    "f'{x = }'\n",
    # fail in first pass / in second pass (invalid_* diagnostics)
    "x = (1,\n 2 3)\n",
    "f(a for a in b, c)\n",
    "a = 1 +\n",
    "def f(x, x=1, y): pass\n",
    "x = [1, 2\n",
    "if x\n  pass\n",
    "1 = x\n",
    "f() = 1\n",
    "del f()\n",
    "for 1 in x: pass\n",
    "import a.b as c.d\n",
    "class A:\npass\n",
    "try:\n    pass\n",
    "x = {1: 2, 3}\n",
    "print 'x'\n",
    "a = b = 1 = c\n",
    "(a, b) += 1\n",
    "with a as 1: pass\n",
    "lambda x=1, y: x\n",
    "f(**a, *b)\n",
    "f(a=1, b)\n",
    "x = 1 if 2\n",
    "else:\n  pass\n",
    "def f(:\n  pass\n",
    "'abc\n",
    "x = '''abc\n",
    "  x = 1\n",
    "if a:\n    b\n  c\n",
    # nested blocks, dedent to a non-zero level, header lines whose body can be lost
    "class A:\n    def f(self):\n        if x:\n            pass\n    y = 1\n",
    "def f():\n    for a in b:\n        x\n    e\n",
    "class A:\n    def f(self):\n        pass\n    @d\n    def g(self): pass\n",
    "if a:\n    if b:\n        c\n    else:\n        d\ne\n",
    "while a:\n  try:\n    b\n  finally:\n    c\n  d\n",
    "x = [\n  1,\n\n  # c\n  2\n]\n",
    "f(a,\n  b\n  c)\n",
    "s = \"\"\"a\nb\n\"\"\" 1\n",
    # diagnostics whose reported node spans several lines (implicit string concatenation, brackets)
    "(\"aaaaaaaaaa\"\n \"b\") = 1\n",
    "x = {\"k\": 1, \"aaaaaaaaaaaaaaa\"\n  \"b\"}\n",
    "del (\"aaaaaaaa\"\n  \"b\")\n",
    "for \"aaaaaaaaaaa\" \\\n \"b\" in x: pass\n",
    "with a as (\"aaaaaaaaa\"\n \"b\"): pass\n",
    "(a,\n b + 1,\n c) = 1\n",
    "[a, f(\n 1,\n 2)] = 1\n",
    "del (a,\n  b(),\n  c)\n",
    "f(a for a in b,\n  c)\n",
    "x = {1: 2,\n  **a,\n  3}\n",
    "f(a=1,\n  **b,\n  *c,\n  d)\n",
    "\"\"\"a\nb\"\"\" = 1\n",
    "x = (\"\"\"a\nb\"\"\"\n  'c' 1)\n",
    "lambda x, (\n y): 1\n",
    "def f(a,\n   b=1,\n   c): pass\n",
    "import (a,\n  b)\n",
    "from a import (b,\n  c,\n  )\nfrom d import (\n)\n",
    # numeric literal shapes (their prefixes are what a cut source leaves behind), unicode names and digits
    "x = 1_000j + 0x_ff + 1e10 + 1.e+5 + 0b1_0 + 0o17 + 1.5j + .5e-3\n",
    "y = 0xFF_FF | 0B11 | 0O7 | 1_0.0_1e1_0 | 1E5J\n",
    "z = 1__0 + 0x + 1e + 0b2 + 09 + 1.2.3 + 1_\n",
    "\u0646\u0627\u0645 = \u0661\u0662\n",
    "\u00aa\u00b5 = e\u0301 + \ufb01 + x\u0303\u0303\n",
    "d\u00e9f = '\u00e9' if \u00e9 else $\u00c9COLE\n",
    "x = '" + "a" * 300 + "'\n",
    "n" * 200 + " = 1\n",
    # multi-line reported nodes whose last line is much longer than their first (a column of one line applied to another)
    "x = {1: 2, (a,\n      bbbbbbbbbbbbbbbbbbbbbbbbbbbbbbbbbbbb)}\n",
    "(a,\n bbbbbbbbbbbbbbbbbbbbbbbbbbbbbbbbbbbbbb()) = 1\n",
    "del (a,\n   bbbbbbbbbbbbbbbbbbbbbbbbbbbbbbbbbbbb())\n",
    "f(a for a in b,\n  cccccccccccccccccccccccccccccccccccccc)\n",
    "x = (\"a\"\n  \"bbbbbbbbbbbbbbbbbbbbbbbbbbbbbbbbbbbbbbbbbb\") = 1\n",
    "x = {\"a\"\n \"bbbbbbbbbbbbbbbbbbbbbbbbbbbbbbbbbbbbbbbbbbbb\"}, {1: 2, \"c\"\n   \"ddddddddddddddddddddddddddddd\"}\n",
    "for (a,\n   bbbbbbbbbbbbbbbbbbbbbbbbbbbbbbbbbbbbbbbbbb()) in x: pass\n",
    "with a as (b,\n    cccccccccccccccccccccccccccccccccccc()): pass\n",
    # xonsh nodes as the target of node-located diagnostics
    "x? = 1\n", "del x??\n", "p'/tmp' = 1\n", "for x? in y: pass\n", "with a as p'b': pass\n", "(x? := 1)\n",
    "$(ls) = 1\n", "del ![a]\n", "@(x) = 1\n", "g`*.py` = 1\n", "f!(x) = 1\n", "$X += $(y) = 2\n",
    # string literals that make the literal evaluator warn (invalid escapes)
    "x = \"\\d\"\n", "y = '\\/' + 'a\\ b'\n", "z = b'\\T'\n", "f'{a}\\H'\n", "$(echo '\\A')\n",
    # escape sequences inside string and f-string literals (a cut source leaves them half-written)
    "x = f\"\\N{EN DASH}{a}\\x41\\u00e9\"\n", "y = \"\\N{BULLET} \\U0001F600 \\101 \\n\"\n",
    "z = f\'\'\'\\N{EM DASH}\n{b}\\\nc\'\'\'\n", "w = b\"\\x00\\377\" + rb\"\\N{x}\"\n",
    # empty literals next to each other
    "'' f''\n", "f\"\" \"\"\n", "x = '' ''\n", "y = b'' b''\n", "f'{a}' ''\n", "'' f'{a}' ''\n", "z =  f\n",
    # characters pasted from a word processor or a web page: curly quotes, dashes, minus sign, ellipsis, no-break space,
    # zero-width space, byte-order mark, right-to-left mark, full-width parenthesis
    "\u201chello\u201d\n", "ls \u2013\u2013all\n", "total = a \u2212 b\n", "[1, 2, \u2026]\n", "x = \u2018a\u2019\n",
    "y = 1\u00a0+ 2\n", "z\u200b = 3\n", "\ufeffw = 4\n", "v = 5 \u200f# c\n", "f\uff08a\uff09\n", "echo a\u2014b\n",
    # version-gated constructs
    "try:\n    pass\nexcept* E:\n    pass\n",
    "type X = int\n",
    "def f[T](x: T) -> T: return x\n",
    "match x:\n    case 1:\n        pass\n",
    "with (a as b, c as d): pass\n",
    "x = (y := 1)\n",
    "def f(a, /, b): pass\n",
    # xonsh constructs
    "$(ls -l | grep x > out.txt)\n",
    "!(ls) and ![pwd]\n",
    "echo @(x) @$(which ls)\n",
    "ls -l && pwd || echo no\n",
    "x = $HOME + ${'PATH'}\n",
    "g`*.py`\n",
    "`a.*`\n",
    "@(x)?\n",
    "x??\n",
    "ls > /dev/null e>o &\n",
    "$[cmd < in.txt >> out.txt]\n",
    "cd ~/x && ls *.py\n",
]


PAD_LINES = ["v0 = 0\n", "\n", "# c\n", "v3 = [\n", "  3]\n", "v5 = 5\n", "\n", "v7 = \"\"\"a\n", "b\"\"\"\n"]


def padded(text: str, k: int) -> str:
    """The record stored after k lines of other content (valid statements, blank and comment lines, a
    multi-line bracket, a multi-line string)."""
    return "".join(PAD_LINES[:k]) + text


WIDE_PREFIX = "'\u20ac\u20ac\u20ac\u20ac\u20ac\u20ac\u20ac\u20ac\u20ac\u20ac\u20ac\u20ac'; "


def widened(text: str) -> str | None:
    """The record with a statement of multi-byte characters in front of it on the same line (a column counted in
    bytes then overshoots the line).  Only for records that start at column 0 on every line."""
    if not text or text[0] in " \t#\n" or any(ln[:1] in (" ", "\t") for ln in text.split("\n")[1:]):
        return None
    return WIDE_PREFIX + text


def carrier_texts() -> list[str]:
    return sorted(set(CARRIERS) | {t for pair in PREFIX_SHARING + ALIASING for t in pair})


# far beyond the recursion limit whatever the caller's own depth: the outcome class is stable, and any change
# that touches the process-wide limit around a parse shows up when parses overlap
DEEP = ["(" * 200 + "1" + ")" * 200 + "\n", "x = " + "[" * 120 + "]" * 120 + "\n", "f(" * 150 + ")" * 150 + "\n"]

# names that are keywords only in some grammar versions, or only softly
KEYWORD_NAMES = [
    "async = 1\n", "print(await)\n", "def async(): pass\n", "await = 2\n", "match = 1\n", "case = 2\n", "type = 3\n",
    "_ = 4\n", "match x:\n    case _: pass\n", "type X = int\n", "print = 1\n", "exec 'x'\n", "nonlocal x\n",
    "async def f(): await g()\n", "x = [await y async for y in z]\n",
    # soft keywords at the head of something that is not their statement
    "x = match y\n", "case 1\n", "type x y\n", "_ 1\n", "match x y:\n", "match x:\n  case\n", "type X[T] =\n", "match(x)\n",
    "case = match\n", "print(match, case, type, _)\n",
]
PY_VERSIONS = [[3, 0], [3, 5], [3, 6], [3, 7], [3, 8], [3, 9], [3, 10], [3, 11], [3, 12], [3, 13]]


# xonsh subprocess words are built from parts that may be glued together without a blank; every ordered pair of
# parts, glued, as the word of a captured subprocess and as the head of an uncaptured one (valid xonsh programs in
# the sense of C03's quantifier: their prefixes and single edits are what a prompt sees)
WORD_PARTS = ["a", "$HOME", "${'x'}", "$(b)", "@(c)", "@$(d)", "`e.*`", "g`*.py`", "'s'", '"t"', 'f"{u}"', "*.py", "~/v",
              "$A=", "b'w'", "r'x'", "p'y'", "-z", "1", ">", "2>&1", "|", "&&", "?"]


def glued_words() -> list[str]:
    out = []
    for p1 in WORD_PARTS:
        for p2 in WORD_PARTS:
            out.append(f"$(echo {p1}{p2})\n")
            out.append(f"![{p1}{p2} c]\n")
    return out


# very long tokens of every lexical class (catastrophic backtracking in a token pattern is a non-termination too)
LONG_TOKENS = [
    "x = 1e" + "1" * 64 + "\n", "x = " + "1" * 300 + "\n", "x = 1." + "0" * 100 + "e" + "1" * 100 + "\n",
    "x = 0x" + "f" * 120 + "\n", "x = " + "1_" * 60 + "1\n", "x = 1e+" + "0" * 60 + "j\n", "x = " + "." * 90 + "\n",
    "x = " + "\\" * 80 + "\n", "#" + "#" * 300 + "\n", "x = " + "'" * 91 + "\n", "`" + "a" * 200 + "`\n",
    "$" + "A" * 200 + "\n", "x" + " " * 300 + "= 1\n", "f'" + "{" * 40 + "}" * 40 + "'\n", "x = " + "-" * 150 + "1\n",
]


def deep_valid() -> list[str]:
    """Valid programs nested 12 to 40 brackets deep.  They are delivered undamaged and cut short (a cut leaves
    unclosed brackets, which the tokenizer reports before any parsing starts); they are never otherwise damaged,
    because an *error* below about ten brackets sends the diagnostic second pass into exponential time."""
    out = []
    for d in (12, 16, 20, 21, 22, 23, 28, 40):
        out.append("x = " + "(" * d + "1" + ")" * d + "\n")
        out.append("y = " + "[" * d + "]" * d + "\n")
        out.append("z = " + "{" * d + "1" + "}" * d + "\n")
        out.append("f(" * d + ")" * d + "\n")
        out.append("a" + "[0]" * d + " = " + "(1,) + " * d + "()\n")
    return out


def build_pool() -> list[str]:
    """Sorted, de-duplicated pool of texts (valid and invalid) of at most MAX_LEN characters."""
    texts: set[str] = set()
    tdir = os.path.join(REPO, "tests")
    ddir = os.path.join(tdir, "data")
    for dirpath, dirnames, filenames in os.walk(ddir):
        dirnames.sort()
        for fn in sorted(filenames):
            p = os.path.join(dirpath, fn)
            rel = os.path.relpath(p, ddir)
            if os.sep in rel or fn.endswith(".xsh"):
                texts.update(_xonsh_cases(p))
            if fn.endswith(".py") and os.sep not in rel:
                texts.update(_statements_of(p))
            elif fn.endswith(".xsh"):
                with open(p, encoding="utf-8") as f:
                    texts.add(f.read())
    if os.path.isdir(tdir):
        for fn in sorted(os.listdir(tdir)):
            if fn.startswith("test_") and fn.endswith(".py"):
                texts.update(_param_strings(os.path.join(tdir, fn)))
    for a, b in PREFIX_SHARING + ALIASING:
        texts.add(a)
        texts.add(b)
    texts.update(CARRIERS)
    texts.update(KEYWORD_NAMES)
    texts.update(grammar_sentences())
    texts.update(string_prefix_texts())
    return sorted(t for t in texts if _ok_text(t))


def string_prefix_texts() -> list[str]:
    """One literal per string-prefix spelling the working tree's tokenizer accepts (every case combination and
    order of b r u f p), taken from the tokenizer itself; a static list if it no longer offers one."""
    try:
        from peg_parser import tokenize as _tk

        prefixes = sorted(p for p in _tk._all_string_prefixes() if p)
    except Exception:  # noqa: BLE001
        prefixes = ["b", "B", "r", "R", "u", "U", "f", "F", "p", "P", "br", "Br", "bR", "BR", "rb", "Rb", "rB", "RB", "fr", "Fr",
                    "fR", "FR", "rf", "Rf", "rF", "RF", "pr", "Pr", "pR", "PR", "rp", "Rp", "rP", "RP", "pf", "Pf", "pF", "PF",
                    "fp", "Fp", "fP", "FP"]
    out = []
    for pre in prefixes:
        body = "{a}/b" if "f" in pre.lower() else "/a/b"
        out.append(f"v = {pre}'{body}'\n")
        out.append(f"w = {pre}\"{body}\" 'c'\n")
    return out


def grammar_sentences() -> list[str]:
    """One short sentence per alternative of the working tree's grammar (see gramgen); empty if the grammar or the
    generator cannot be loaded (that is C16's business, not the pool's)."""
    try:
        from . import gramgen

        return gramgen.sentences()
    except Exception:  # noqa: BLE001
        return []


def looks_like_expression(text: str) -> bool:
    try:
        ast.parse(text.strip(), mode="eval")
    except (SyntaxError, ValueError, RecursionError, MemoryError):
        return False
    return True


def data_files(max_bytes: int) -> list[tuple[str, str]]:
    """(relative name, content) of every tests/data file no longer than max_bytes."""
    ddir = os.path.join(REPO, "tests", "data")
    out = []
    for dirpath, dirnames, filenames in os.walk(ddir):
        dirnames.sort()
        for fn in sorted(filenames):
            p = os.path.join(dirpath, fn)
            if os.path.getsize(p) <= max_bytes:
                with open(p, encoding="utf-8") as f:
                    out.append((os.path.relpath(p, ddir), f.read()))
    return out
