"""Shared kernel of the simulator: configuration, seeds, canonical outcomes, the two-level fork
pool, event logs/digests, replay files, known findings and evidence files.

Nothing in here draws from a PRNG or reads a clock on a logging path (DESIGN 3.1).
"""

from __future__ import annotations

import ast
import enum
import hashlib
import json
import os
import pickle
import random
import re
import select
import signal
import struct
import sys
import time
import traceback

VERIF = os.path.dirname(os.path.dirname(os.path.abspath(__file__)))
REPO = os.path.realpath(os.environ.get("VERIF_REPO", "/repo"))
SEED = int(os.environ.get("VERIF_SEED", "0") or 0)
JOBS = max(1, int(os.environ.get("VERIF_JOBS", "0") or 0) or min(16, os.cpu_count() or 1))
GUARD = "XONSH_PARSER_VERIF"

REPO_SRC_DIRS = ("peg_parser", "pegen", "tasks")


class HarnessError(Exception):
    """Something went wrong in the machinery itself (never a pass, never a VIOLATION)."""


# ----------------------------------------------------------------------------------------------
# importing the system under test


def setup_repo_import() -> None:
    """Make `import peg_parser` resolve to REPO's working tree and check that it did."""
    if sys.path[0] != REPO:
        sys.path.insert(0, REPO)
    import peg_parser.parser  # noqa: F401
    import peg_parser.subheader  # noqa: F401
    import peg_parser.tokenize  # noqa: F401
    import peg_parser.tokenizer  # noqa: F401

    for name in ("peg_parser.parser", "peg_parser.subheader", "peg_parser.tokenize", "peg_parser.tokenizer"):
        f = os.path.realpath(sys.modules[name].__file__ or "")
        if not f.startswith(REPO + os.sep):
            raise HarnessError(f"{name} imported from {f}, expected under {REPO}")


def is_repo_file(filename: str) -> bool:
    return filename.startswith(REPO + os.sep)


def tree_digest() -> dict[str, str]:
    """SHA-1 of every python/grammar source of the system under test."""
    out: dict[str, str] = {}
    for d in REPO_SRC_DIRS:
        root = os.path.join(REPO, d)
        for dirpath, dirnames, filenames in os.walk(root):
            dirnames[:] = sorted(x for x in dirnames if x != "__pycache__")
            for fn in sorted(filenames):
                if fn.endswith((".py", ".gram")):
                    p = os.path.join(dirpath, fn)
                    with open(p, "rb") as f:
                        out[os.path.relpath(p, REPO)] = hashlib.sha1(f.read()).hexdigest()
    return out


# ----------------------------------------------------------------------------------------------
# seeds


def rng_for(*parts: object) -> random.Random:
    """String seeding hashes with SHA-512: independent of PYTHONHASHSEED and of job count."""
    return random.Random("/".join(str(p) for p in parts))


def ensure_hashseed() -> None:
    """Re-exec with PYTHONHASHSEED=0 so that set/dict order in the harness is fixed."""
    want = os.environ.get("VERIF_HARNESS_HASHSEED", "0")
    if os.environ.get("PYTHONHASHSEED") != want:
        env = dict(os.environ)
        env["PYTHONHASHSEED"] = want
        os.execve(sys.executable, [sys.executable, *sys.argv], env)


# ----------------------------------------------------------------------------------------------
# canonical outcomes


def exc_site(exc: BaseException) -> str:
    """Innermost frame of the traceback that lies in the repository: 'file.py:function'."""
    site = "?"
    tb = exc.__traceback__
    while tb is not None:
        code = tb.tb_frame.f_code
        if is_repo_file(code.co_filename):
            site = f"{os.path.basename(code.co_filename)}:{code.co_name}"
        tb = tb.tb_next
    return site


_ADDR = re.compile(r" at 0x[0-9a-fA-F]+")


def _scrub(x: object) -> object:
    """Memory addresses inside a message are not part of an outcome."""
    return _ADDR.sub(" at 0x?", x) if isinstance(x, str) else x


def canon_exception(e: BaseException) -> tuple:
    if isinstance(e, SyntaxError):
        return (
            "syntax",
            type(e).__name__,
            _scrub(e.msg),
            e.filename,
            e.lineno,
            e.offset,
            e.end_lineno,
            e.end_offset,
            e.text,
            exc_site(e),
            _exc_extras(e),
        )
    return ("exc", type(e).__name__, _scrub(str(e)), exc_site(e), _exc_extras(e))


def _exc_extras(e: BaseException) -> tuple:
    """What else a caller can observe on the exception object: its notes and the class of its explicit cause.

    The implicit `__context__` is deliberately not part of an outcome.  It was for a few hours, and the seed sweep then
    reported a "violation" on the unchanged tree: after a fault had been injected (by raising from the monitoring
    callback) while the interpreter was unwinding another exception, a later, unrelated SyntaxError carried that
    earlier exception as its context.  That is the interpreter's bookkeeping of *handled* exceptions reacting to the
    injection, not state of the parser, and no property speaks about it."""
    notes = tuple(_scrub(str(n)) for n in getattr(e, "__notes__", ()) or ())
    cause = type(e.__cause__).__name__ if e.__cause__ is not None else None
    return (notes, cause)


_ATOMS = (str, bytes, int, float, complex, bool, type(None), type(Ellipsis))


def stable_dump(x: object, _stack: tuple = ()) -> str:
    """Like ast.dump(include_attributes=True), but free of memory addresses whatever ends up inside a field, and
    including what ast.dump leaves out: attributes stored on a node beyond its declared fields and positions.

    The pinned tree can put non-AST objects into a tree (e.g. a (Name, token) tuple for '$(l?)'); ast.dump prints
    those with repr(), which contains addresses and made two identical outcomes compare unequal (a false alarm of
    the first sweep)."""
    if isinstance(x, _ATOMS):
        return repr(x)
    if id(x) in _stack:
        return "<cycle>"
    st = (*_stack, id(x))
    if isinstance(x, ast.AST):
        parts = [f"{n}={stable_dump(getattr(x, n), st)}" for n in x._fields if hasattr(x, n)]
        parts += [f"{n}={getattr(x, n)!r}" for n in x._attributes if hasattr(x, n)]
        declared = set(x._fields) | set(x._attributes)
        extra = sorted(k for k in getattr(x, "__dict__", {}) if k not in declared)
        parts += [f"+{k}={stable_dump(getattr(x, k), st)}" for k in extra]
        return f"{type(x).__name__}({', '.join(parts)})"
    if isinstance(x, tuple) and hasattr(x, "_fields"):  # TokenInfo and other named tuples
        inner = ", ".join(f"{n}={stable_dump(v, st)}" for n, v in zip(x._fields, x))
        return f"{type(x).__name__}<{inner}>"
    if isinstance(x, list):
        return "[" + ", ".join(stable_dump(v, st) for v in x) + "]"
    if isinstance(x, tuple):
        return "(" + ", ".join(stable_dump(v, st) for v in x) + ",)"
    if isinstance(x, dict):
        return "{" + ", ".join(f"{stable_dump(k, st)}: {stable_dump(v, st)}" for k, v in x.items()) + "}"
    if isinstance(x, enum.Enum):
        return f"{type(x).__name__}.{x.name}"
    return f"<{type(x).__name__}>"


def canon_tree(tree: object) -> tuple:
    if isinstance(tree, ast.AST):
        return ("ok", stable_dump(tree))
    return ("ok-nontree", stable_dump(tree))


def outcome_of(fn, *args, **kwargs) -> tuple[tuple, object]:
    """Run fn and return (canonical outcome, raw result or exception)."""
    try:
        res = fn(*args, **kwargs)
    except BaseException as e:  # noqa: BLE001 - classification is the whole point
        return canon_exception(e), e
    return canon_tree(res), res


def jsonable(x: object) -> object:
    if isinstance(x, tuple | list):
        return [jsonable(y) for y in x]
    if isinstance(x, dict):
        return {str(k): jsonable(v) for k, v in x.items()}
    if isinstance(x, str | int | float | bool) or x is None:
        return x
    return repr(x)


def jsonable_tuple(x: object) -> object:
    """Normal form for comparing outcomes that may have been through pickle (tuples) or JSON (lists)."""
    if isinstance(x, tuple | list):
        return tuple(jsonable_tuple(y) for y in x)
    return x


def short(x: object, n: int = 300) -> str:
    s = x if isinstance(x, str) else json.dumps(jsonable(x))
    return s if len(s) <= n else s[: n - 3] + "..."


# ----------------------------------------------------------------------------------------------
# event log


class EventLog:
    """(seq, actor, event, detail) tuples; the digest is the identity of an execution."""

    __slots__ = ("events", "keep")

    def __init__(self, keep: bool = True) -> None:
        self.events: list[tuple] = []
        self.keep = keep

    def add(self, actor: object, event: str, detail: object = None) -> None:
        self.events.append((len(self.events), actor, event, detail))

    def digest(self) -> str:
        h = hashlib.sha256()
        for ev in self.events:
            h.update(repr(ev).encode("utf-8", "backslashreplace"))
            h.update(b"\n")
        return h.hexdigest()


# ----------------------------------------------------------------------------------------------
# two-level fork pool
#
# parent ──fork──▶ worker w (pristine: has imported the repo, never parses)
#                     └─fork──▶ one child per task (runs it, reports, _exit)
#
# Tasks are handed to whichever worker is free; every task is a pure function of its own description,
# so results do not depend on the number of jobs or on which worker ran what.  A child that exceeds the wall-clock safety net is killed
# and reported as ("harness-timeout", ...) — never as a pass and never as a violation.


def _write_msg(fd: int, obj: object) -> None:
    data = pickle.dumps(obj, protocol=pickle.HIGHEST_PROTOCOL)
    data = struct.pack("<Q", len(data)) + data
    mv = memoryview(data)
    while mv:
        n = os.write(fd, mv)
        mv = mv[n:]


def _read_exact(fd: int, n: int) -> bytes | None:
    buf = bytearray()
    while len(buf) < n:
        chunk = os.read(fd, n - len(buf))
        if not chunk:
            return None
        buf += chunk
    return bytes(buf)


def _read_msg(fd: int) -> object | None:
    head = _read_exact(fd, 8)
    if head is None:
        return None
    (n,) = struct.unpack("<Q", head)
    body = _read_exact(fd, n)
    if body is None:
        return None
    return pickle.loads(body)


def run_in_child(fn, task, wall_timeout: float):
    """Fork, run fn(task) in the child, return its result (or a harness-* tuple)."""
    r, w = os.pipe()
    pid = os.fork()
    if pid == 0:
        code = 0
        try:
            os.close(r)
            try:
                res = ("ok", fn(task))
            except BaseException:  # noqa: BLE001
                res = ("harness-error", traceback.format_exc())
            _write_msg(w, res)
        except BaseException:  # noqa: BLE001
            code = 3
        finally:
            os._exit(code)
    os.close(w)
    deadline = time.monotonic() + wall_timeout
    res = None
    try:
        while True:
            left = deadline - time.monotonic()
            if left <= 0:
                res = ("harness-timeout", f"task exceeded {wall_timeout}s wall clock")
                break
            ready, _, _ = select.select([r], [], [], min(left, 1.0))
            if ready:
                msg = _read_msg(r)
                res = msg if msg is not None else ("harness-error", "child died without a result")
                break
    finally:
        os.close(r)
        if res is None or res[0] == "harness-timeout":
            try:
                os.kill(pid, signal.SIGKILL)
            except ProcessLookupError:
                pass
        try:
            os.waitpid(pid, 0)
        except ChildProcessError:
            pass
    return res


def _worker_main(fn, tasks, cmd_fd, out_fd, wall_timeout, fork_per_task):
    while True:
        head = _read_exact(cmd_fd, 8)
        if head is None:
            return
        (i,) = struct.unpack("<q", head)
        if i < 0:
            return
        if fork_per_task:
            res = run_in_child(fn, tasks[i], wall_timeout)
        else:
            try:
                res = ("ok", fn(tasks[i]))
            except BaseException:  # noqa: BLE001
                res = ("harness-error", traceback.format_exc())
        _write_msg(out_fd, (i, res))


def run_tasks(fn, tasks: list, *, jobs: int | None = None, wall_timeout: float = 120.0, fork_per_task: bool = True):
    """Yield (index, (status, payload)) for every task, in completion order.  Tasks are handed to whichever
    worker is free (each task is a pure function of its own description, so which worker runs it and in which
    order cannot change its result)."""
    jobs = max(1, min(jobs or JOBS, len(tasks) or 1))
    workers: dict[int, tuple[int, int]] = {}  # result fd -> (pid, command fd)
    sys.stdout.flush()
    sys.stderr.flush()
    for _w in range(jobs):
        r, wfd = os.pipe()
        cr, cw = os.pipe()
        pid = os.fork()
        if pid == 0:
            code = 0
            try:
                os.close(r)
                os.close(cw)
                for fd, (_, cfd) in list(workers.items()):
                    os.close(fd)
                    os.close(cfd)
                _worker_main(fn, tasks, cr, wfd, wall_timeout, fork_per_task)
            except BaseException:  # noqa: BLE001
                traceback.print_exc()
                code = 3
            finally:
                os._exit(code)
        os.close(wfd)
        os.close(cr)
        workers[r] = (pid, cw)
    next_i = 0
    seen = 0

    def feed(cfd):
        nonlocal next_i
        if next_i < len(tasks):
            os.write(cfd, struct.pack("<q", next_i))
            next_i += 1
        else:
            os.write(cfd, struct.pack("<q", -1))

    try:
        for _fd, (_pid, cfd) in workers.items():
            feed(cfd)
        while workers:
            ready, _, _ = select.select(list(workers), [], [], 5.0)
            for fd in ready:
                msg = _read_msg(fd)
                if msg is None:
                    pid, cfd = workers.pop(fd)
                    os.close(fd)
                    os.close(cfd)
                    _, status = os.waitpid(pid, 0)
                    if status != 0:
                        raise HarnessError(f"worker {pid} exited with status {status}")
                    continue
                seen += 1
                feed(workers[fd][1])
                yield msg
    finally:
        for fd, (pid, cfd) in workers.items():
            try:
                os.kill(pid, signal.SIGKILL)
            except ProcessLookupError:
                pass
            os.close(fd)
            os.close(cfd)
            try:
                os.waitpid(pid, 0)
            except ChildProcessError:
                pass
    if seen != len(tasks):
        raise HarnessError(f"only {seen} of {len(tasks)} tasks reported")


# ----------------------------------------------------------------------------------------------
# known findings


class KnownFindings:
    def __init__(self, path: str | None = None) -> None:
        self.path = path or os.path.join(VERIF, "KNOWN_FINDINGS.json")
        data = {"findings": [], "fixed": []}
        if os.path.exists(self.path):
            with open(self.path, encoding="utf-8") as f:
                data = json.load(f)
        self.findings = data.get("findings", [])
        self.fixed = data.get("fixed", [])
        self._by_key = {(f["property"], f["key"]): f for f in self.findings}

    def lookup(self, prop: str, key: str) -> dict | None:
        return self._by_key.get((prop, key))


# ----------------------------------------------------------------------------------------------
# replay + evidence files


def write_replay(prop: str, payload: dict) -> str:
    payload = dict(payload)
    payload.setdefault("format", 1)
    payload.setdefault("property", prop)
    payload.setdefault("tree", tree_digest())
    body = json.dumps(jsonable(payload), indent=1, sort_keys=True, ensure_ascii=True)
    dig = hashlib.sha1(body.encode()).hexdigest()[:12]
    d = os.environ.get("VERIF_REPLAY_DIR") or os.path.join(VERIF, "replays")
    os.makedirs(d, exist_ok=True)
    path = os.path.join(d, f"{prop}-{dig}.json")
    with open(path, "w", encoding="utf-8") as f:
        f.write(body + "\n")
    return path


def write_evidence(prop: str, tier: str, level: str, coverage: dict, assumptions: list[str], wall_s: float,
                   violations: int, extra: dict | None = None) -> str:
    ev = {
        "property_id": prop,
        "tier": tier,
        "seed": SEED,
        "level": level,
        "coverage": jsonable(coverage),
        "assumptions": assumptions,
        "wall_s": round(wall_s, 3),
        "violations": violations,
    }
    if extra:
        ev.update(jsonable(extra))
    d = os.environ.get("VERIF_EVIDENCE_DIR") or os.path.join(VERIF, "evidence")
    os.makedirs(d, exist_ok=True)
    path = os.path.join(d, f"{prop}.json")
    tmp = path + ".tmp"
    with open(tmp, "w", encoding="utf-8") as f:
        json.dump(ev, f, indent=1, sort_keys=True, ensure_ascii=True)
        f.write("\n")
    os.replace(tmp, path)
    return path


class Report:
    """Collects violations for one check invocation, applies the known-findings file, prints the
    interface lines and decides the exit code."""

    def __init__(self, prop: str) -> None:
        self.prop = prop
        self.known = KnownFindings()
        self.violations: dict[str, dict] = {}  # key -> first (smallest) example
        self.known_hits: dict[str, dict] = {}
        self.counts: dict[str, int] = {}
        self.harness_problems: list[str] = []

    def add(self, key: str, example: dict) -> None:
        self.counts[key] = self.counts.get(key, 0) + 1
        k = self.known.lookup(self.prop, key)
        bucket = self.known_hits if k is not None else self.violations
        cur = bucket.get(key)
        if cur is None or example.get("size", 0) < cur.get("size", 0):
            bucket[key] = example

    def harness(self, what: str) -> None:
        self.harness_problems.append(what)

    def finish(self, replay_builder=None) -> int:
        for key in sorted(self.known_hits):
            f = self.known.lookup(self.prop, key)
            print(f"KNOWN-FINDING: property={self.prop} {f['what']} [key={key}; seen {self.counts[key]}x]")
        rc = 0
        for key in sorted(self.violations):
            ex = self.violations[key]
            payload = replay_builder(key, ex) if replay_builder else ex
            path = write_replay(self.prop, payload)
            print(f"VIOLATION property={self.prop} replay={path}")
            print(f"  key={key} seen={self.counts[key]}x  {short(ex.get('summary', ''), 400)}")
            rc = 1
        if self.harness_problems:
            for p in self.harness_problems[:20]:
                print(f"HARNESS-PROBLEM: {short(p, 600)}")
            if rc == 0:
                rc = 2
        sys.stdout.flush()
        return rc
