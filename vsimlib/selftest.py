"""Self-tests of the machinery: sensitivity (planted breaks must be reported), determinism (same
seed twice in fresh interpreters under different hash seeds and job counts gives identical run
digests), stub fidelity."""

from __future__ import annotations

import json
import os
import shutil
import subprocess
import sys
import tempfile
import time

from . import kernel

MUTANT_DIR = os.path.join(kernel.VERIF, "mutants")

# mutant id -> checks that must report it
EXPECT = {
    "M1": ["C13"], "M2": ["C13"], "M3": ["C13"], "M4": ["C13"], "M5": ["C13"],
    "M6": ["C12"], "M7": ["C12"], "M8": ["C11"], "M9": ["C03"], "M10": ["C03"], "M11": ["C11"],
    "M12": ["C16"], "M13": ["C16"], "M14": ["C16"],
}


def scratch_copy(src: str | None = None) -> str:
    """A scratch copy of the working tree (every tracked file as it is on disk now, plus untracked sources)."""
    src = src or kernel.REPO
    d = tempfile.mkdtemp(prefix="vsim-scratch-")
    try:
        files = subprocess.run(["git", "-C", src, "ls-files", "-co", "--exclude-standard"], capture_output=True, text=True,
                               check=True).stdout.splitlines()
    except (subprocess.CalledProcessError, FileNotFoundError):
        files = []
    if files:
        for rel in files:
            sp = os.path.join(src, rel)
            if os.path.isfile(sp) and "__pycache__" not in rel:
                dp = os.path.join(d, rel)
                os.makedirs(os.path.dirname(dp), exist_ok=True)
                shutil.copy2(sp, dp)
        return d
    for name in ("peg_parser", "pegen", "tasks", "tests", "setup.py", "pyproject.toml", "Taskfile.yml"):
        p = os.path.join(src, name)
        if os.path.isdir(p):
            shutil.copytree(p, os.path.join(d, name), ignore=shutil.ignore_patterns("__pycache__", "*.pyc"))
        elif os.path.exists(p):
            shutil.copy2(p, os.path.join(d, name))
    return d


def apply_patch(scratch: str, diff_path: str) -> None:
    r = subprocess.run(["patch", "-p1", "-s", "-d", scratch, "-i", diff_path], capture_output=True, text=True)
    if r.returncode != 0:
        raise kernel.HarnessError(f"patch {diff_path} failed: {r.stdout}{r.stderr}")


def run_check(prop: str, repo: str, tier: str = "quick", seed: str = "0", extra_env: dict | None = None):
    env = dict(os.environ)
    env.update({"VERIF_REPO": repo, "VERIF_REPLAY_DIR": os.path.join(repo, "_replays"), "VERIF_SEED": seed,
                "VERIF_EVIDENCE_DIR": os.path.join(repo, "_evidence")})
    env.update(extra_env or {})
    t0 = time.monotonic()
    r = subprocess.run([sys.executable, os.path.join(kernel.VERIF, "vsim"), "check", prop, "--tier", tier],
                       env=env, capture_output=True, text=True)
    return r.returncode, r.stdout + r.stderr, time.monotonic() - t0


def sensitivity(ids: list[str], props: list[str] | None = None, tier: str = "quick", suite: bool = False) -> int:
    ids = ids or sorted((f[:-5] for f in os.listdir(MUTANT_DIR) if f.endswith(".diff")),
                        key=lambda s: (len(s), s))
    bad = 0
    rows = []
    for mid in ids:
        diff = os.path.join(MUTANT_DIR, f"{mid}.diff")
        scratch = scratch_copy()
        try:
            apply_patch(scratch, diff)
            suite_res = ""
            if suite:
                r = subprocess.run([sys.executable, "-m", "pytest", "-q", "-x", "-p", "no:cacheprovider",
                                    "--timeout=900", "tests"], cwd=scratch, capture_output=True, text=True,
                                   env={**os.environ, "PYTHONPATH": scratch})
                suite_res = r.stdout.strip().splitlines()[-1] if r.stdout.strip() else f"rc={r.returncode}"
            for prop in props or EXPECT.get(mid, []):
                rc, out, wall = run_check(prop, scratch, tier)
                nviol = sum(1 for ln in out.splitlines() if ln.startswith("VIOLATION "))
                first = next((ln for ln in out.splitlines() if ln.startswith("  key=")), "")
                caught = rc == 1 and nviol > 0
                # confirm one replay in a fresh interpreter
                confirmed = None
                if caught:
                    path = next(ln.split("replay=")[1].strip() for ln in out.splitlines() if ln.startswith("VIOLATION "))
                    rr = subprocess.run([sys.executable, os.path.join(kernel.VERIF, "vsim"), "replay", path],
                                        env={**os.environ, "VERIF_REPO": scratch}, capture_output=True, text=True)
                    confirmed = rr.returncode == 1
                rows.append((mid, prop, rc, nviol, round(wall, 1), confirmed, suite_res, first[:140]))
                print(f"{mid} {prop}: exit={rc} violations={nviol} wall={wall:.1f}s replay_confirmed={confirmed} "
                      f"suite=[{suite_res}] {first[:140]}")
                if not caught or confirmed is False:
                    bad += 1
                    print("  NOT CAUGHT; tail of output:\n    " + "\n    ".join(out.splitlines()[-8:]))
                sys.stdout.flush()
        finally:
            shutil.rmtree(scratch, ignore_errors=True)
    print(f"sensitivity: {len(rows)} (mutant, check) pairs, {bad} missed")
    return 1 if bad else 0


def seeded(ids: list[str], tier: str = "quick") -> int:
    """Re-run the kept sub-agent changes (seeded/<id>/patch.diff) against the check of their property."""
    sdir = os.path.join(kernel.VERIF, "seeded")
    ids = ids or sorted(d for d in os.listdir(sdir) if os.path.exists(os.path.join(sdir, d, "patch.diff")))
    bad = 0
    for sid in ids:
        with open(os.path.join(sdir, sid, "meta.json"), encoding="utf-8") as f:
            meta = json.load(f)
        scratch = scratch_copy()
        try:
            apply_patch(scratch, os.path.join(sdir, sid, "patch.diff"))
            rc, out, wall = run_check(meta["property"], scratch, tier)
            nviol = sum(1 for ln in out.splitlines() if ln.startswith("VIOLATION "))
            first = next((ln for ln in out.splitlines() if ln.startswith("  key=")), "")
            print(f"{sid} {meta['property']}: exit={rc} violations={nviol} wall={wall:.1f}s {first[:150]}")
            want = meta.get("expected_exit", 1)
            if want == 0:
                noted = any(ln.startswith("NOTE: recorded-not-judged") for ln in out.splitlines())
                print(f"  (not reported by design / out of scope: expected exit 0; NOTE line printed: {noted})")
                if rc != 0 or (meta.get("expect_note", True) and not noted):
                    bad += 1
            elif rc != 1 or not nviol:
                bad += 1
                print("  NOT CAUGHT; tail of output:\n    " + "\n    ".join(out.splitlines()[-6:]))
            sys.stdout.flush()
        finally:
            shutil.rmtree(scratch, ignore_errors=True)
    print(f"seeded: {len(ids)} changes, {bad} missed")
    return 1 if bad else 0


def benign(ids: list[str], props: list[str] | None = None, tier: str = "quick") -> int:
    """Property-preserving changes: every check must stay quiet (exit 0, no VIOLATION line)."""
    bdir = os.path.join(kernel.VERIF, "benign")
    ids = ids or sorted(f[:-5] for f in os.listdir(bdir) if f.endswith(".diff"))
    bad = 0
    for bid in ids:
        scratch = scratch_copy()
        try:
            apply_patch(scratch, os.path.join(bdir, f"{bid}.diff"))
            for prop in props or ["C13", "C12", "C03", "C11", "C16"]:
                rc, out, wall = run_check(prop, scratch, tier)
                nviol = sum(1 for ln in out.splitlines() if ln.startswith("VIOLATION "))
                print(f"{bid} {prop}: exit={rc} violations={nviol} wall={wall:.1f}s")
                if rc != 0 or nviol:
                    bad += 1
                    print("  FALSE ALARM; tail of output:\n    " + "\n    ".join(out.splitlines()[-8:]))
                sys.stdout.flush()
        finally:
            shutil.rmtree(scratch, ignore_errors=True)
    print(f"benign: {bad} false alarms")
    return 1 if bad else 0


def determinism(props: list[str], n: int = 200) -> int:
    """Each engine: n runs executed twice in separate fresh interpreters (PYTHONHASHSEED=0 vs another,
    different VERIF_JOBS); per-run digests must be identical."""
    bad = 0
    for prop in props or ["C13", "C12", "C03", "C16"]:
        mod = __import__(f"vsimlib.{prop.lower()}", fromlist=["digests"])
        if not hasattr(mod, "digests_cli"):
            print(f"{prop}: no digest interface")
            continue
        outs = []
        for hs, jobs in (("0", "16"), ("987654321", "3")):
            env = {**os.environ, "PYTHONHASHSEED": hs, "VERIF_HARNESS_HASHSEED": hs, "VERIF_JOBS": jobs}
            r = subprocess.run([sys.executable, os.path.join(kernel.VERIF, "vsim"), "selftest", "_digests", prop, str(n)],
                               env=env, capture_output=True, text=True)
            if r.returncode != 0:
                print(r.stdout[-2000:], r.stderr[-2000:])
                raise kernel.HarnessError(f"digest run failed for {prop}")
            outs.append(json.loads(r.stdout.strip().splitlines()[-1]))
        diff = [i for i, (a, b) in enumerate(zip(outs[0], outs[1])) if a != b]
        print(f"determinism {prop}: {len(outs[0])} runs x 2 interpreters (hash seeds 0/987654321, jobs 16/3): "
              f"{len(diff)} differing digests {diff[:10]}")
        bad += len(diff) + (len(outs[0]) != len(outs[1]))
    return 1 if bad else 0


def main(argv: list[str]) -> int:
    if not argv:
        print("selftest sensitivity [--suite] [--tier T] [Mx ...] | determinism [Cxx ...] [-n N]")
        return 2
    cmd, rest = argv[0], argv[1:]
    if cmd == "sensitivity":
        suite = "--suite" in rest
        tier = "quick"
        if "--tier" in rest:
            tier = rest[rest.index("--tier") + 1]
            rest = [a for a in rest if a not in ("--tier", tier)]
        props = [a for a in rest if a.startswith("C")]
        ids = [a for a in rest if not a.startswith("-") and not a.startswith("C")]
        return sensitivity(ids, props or None, tier, suite)
    if cmd == "seeded":
        return seeded([a for a in rest if a.startswith("S-")])
    if cmd == "benign":
        props = [a for a in rest if a.startswith("C")]
        ids = [a for a in rest if a.startswith("B")]
        return benign(ids, props or None)
    if cmd == "determinism":
        n = 200
        if "-n" in rest:
            n = int(rest[rest.index("-n") + 1])
            rest = [a for a in rest if a not in ("-n", str(n))]
        return determinism(rest, n)
    if cmd == "_digests":
        mod = __import__(f"vsimlib.{rest[0].lower()}", fromlist=["digests_cli"])
        print(json.dumps(mod.digests_cli(int(rest[1]))))
        return 0
    return 2
