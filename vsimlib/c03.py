"""C03 — totality on cut or damaged streams (scoped to the fault closure of the base set)."""

from . import closure

PROP = "C03"
TEXT = {
    "level": "fault_enumeration",
    "rule": "one evaluation = one delivery of one damaged content through one reader/entry (parse_string exec/eval, "
            "parse_file, generate_tokens over str/iterator/file readers, parser over an iterator reader). Contents come "
            "from the SimDisk fault closure of the base set: every truncation offset (EOF at every instant), single-symbol "
            "replacements, deletions and insertions (exhaustive for the small carrier bases), bursts, lost/duplicated/swapped lines, torn overwrites, "
            "2-3 combined faults. distinct_nontrivial = distinct damaged contents (by SHA-1, per batch) that differ from "
            "their base. 'Arbitrary character soup' unrelated to any base is not searched.",
    "assumptions": [
        "scope: the fault closure of a finite base set, not all unicode strings",
        "termination is judged in simulated steps (loop back-edges in repository code) against a flat budget of 1e7; the "
        "2 s wall-clock timer only selects which inputs are re-run under the step clock, so a slow or loaded machine "
        "cannot cause a violation, and a terminating but super-linear parse is recorded as slow, not as a violation",
        "outcome classes allowed: ast.Module/ast.Expression, SyntaxError (incl. IndentationError), TokenError",
    ],
}


def check(tier: str) -> int:
    return closure.check(PROP, tier, TEXT)


def replay(path: str) -> int:
    return closure.replay(PROP, path)
