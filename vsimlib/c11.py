"""C11 — failures after a stream fault are well-formed error reports (scoped like C03)."""

from . import closure

PROP = "C11"
TEXT = {
    "level": "exploration",
    "rule": "same fault closure and deliveries as C03; every SyntaxError/IndentationError raised is judged: non-empty "
            "message and file name, 1 <= lineno <= lines+1, 1 <= offset <= len(line)+1, end position present and not before "
            "the start, text begins with the source line at lineno (against the raw or the universal-newline view of the "
            "delivered content, whichever fits). evaluations = deliveries; distinct_nontrivial = distinct damaged contents.",
    "assumptions": [
        "scope: errors raised on the fault closure of a finite base set",
        "lenient reading: a report is accepted if well-formed against either the raw or the universal-newline view",
        "source lines are split at LF only, never with str.splitlines()",
    ],
}


def check(tier: str) -> int:
    return closure.check(PROP, tier, TEXT)


def replay(path: str) -> int:
    return closure.replay(PROP, path)
