"""C12 — file and string entry points agree, whatever the environment (World B).

Three configurations, run separately so that a relaxation never hides an ordinary bug:
A fault-free, B storage faults (exact equality still required), C read faults (narrowly relaxed)."""

from __future__ import annotations

import builtins
import hashlib
import json
import os
import pathlib
import pickle
import shutil
import subprocess
import sys
import tempfile
import time

from . import kernel, pool, worldb
from .kernel import SEED, Report, rng_for

PROP = "C12"
PINNED_MTIME_NS = 1_700_000_000_000_000_000
ENCODINGS = ["utf-8", "ascii", "latin-1", "cp1252"]
SPELLINGS = ["LF", "CRLF", "CR", "mixed"]

TIERS = {
    "quick": {"ascii_other_enc": 1, "b_per_text": 6, "c_per_text": 2, "c_texts": 1500, "child_pairs": 150, "r_cases": 1500,
              "batch": 400, "min_seconds": 60},
    "thorough": {"ascii_other_enc": 3, "b_per_text": 150, "c_per_text": 25, "c_texts": 100000, "child_pairs": 2500, "r_cases": 30000,
                 "batch": 600, "min_seconds": 600},
}

NON_ASCII = [
    "x = 'é'\n", "λ = 1\n", "print('€')\n", "# comment é\nx = 1\n", "f'{é}'\n", "x = 'é' +\n", "$(echo é)\n", "é é\n",
    "s = '''é\n€\n'''\n", "def f(ü):\n    return 'ß'\n", "x = (1,\n 'é' 3)\n", "ls -l ~/Café\n", "p'/tmp/é'\n",
    "x = \"日本語\"\nif x\n", "f!(é, €)\n", "with! ctx:\n    é b c\n", "$[echo! é  b]\n", "a = 'é' if\n",
    "class Ä:\n  pass\n", "x = '\xa0'\n", "y = 1 # \x85\n", "z = ' '\n",
]


# comments in the first two lines that look like, or are, PEP 263 encoding declarations (all of these files are UTF-8)
COOKIE_LIKE = [
    "# decoding: see the notes below\nx = '\u00e9'\n",
    "# -*- coding: utf-8 -*-\nx = '\u00e9' +\n",
    "#!/usr/bin/env xonsh\n# vim: set fileencoding=utf-8 :\ny = '\u20ac'\n",
    "# encoding=utf8\nls -l ~/Caf\u00e9\n",
    "# This file uses the following encoding: utf-8\nz = 1\n",
    "# -*- coding: utf-8-unix -*-\nw = '\u00e9'\n",
    "x = 1  # coding: see PEP 263\n# coding=value is mentioned here too\ny = '\u00e9' if\n",
    "# transcoding=none needed\nprint('\u00e9')\n",
]


# ----------------------------------------------------------------------------------------------
# workload


def build_cases(tier: str) -> list[dict]:
    cfg = TIERS[tier]
    texts = pool.build_pool()
    for rel, content in pool.data_files(2048):
        if content not in texts:
            texts.append(content)
    texts = sorted(set(texts) | set(NON_ASCII) | set(COOKIE_LIKE)
                   | {pool.padded(t, k) for t in pool.carrier_texts() for k in (7, 9)})
    cases = []
    # configuration A
    for ti, t in enumerate(texts):
        rng = rng_for(SEED, PROP, "A", ti)
        spellings = SPELLINGS if "\n" in t.rstrip("\n") or t.endswith("\n") else ["LF"]
        finals = [t] + ([t[:-1]] if t.endswith("\n") and len(t) > 1 else [])
        encs = list(ENCODINGS) if not t.isascii() else ["utf-8"] + rng.sample(ENCODINGS[1:], cfg["ascii_other_enc"])
        for variant in finals:
            for sp in spellings:
                content = worldb.respell(variant, sp)
                for enc in encs:
                    cases.append({"config": "A", "content": content, "encoding": enc, "spelling": sp,
                                  "final_newline": variant.endswith("\n"), "faults": [], "read_fault": None})
    # configuration A, large files: beyond one 8 KiB and one 64 KiB read buffer, > 1000 lines, a very long line, with
    # the error (if any) at the very end so that the re-read for the error text has to go all the way
    big = "".join(c for _, c in pool.data_files(20000) if c.isascii())
    long_line = "x = [" + ", ".join(str(i) for i in range(4000)) + "]\n"
    for body in (big[:9000], big[:9000] * 8, "v = 1\n" * 1500, long_line):
        body = body[: body.rfind("\n") + 1]
        for tail in ("", "x = (1,\n 2 3)\n", "if a:\n", 's = """a\n'):
            for sp in ("LF", "CRLF"):
                cases.append({"config": "A", "content": worldb.respell(body + tail, sp), "encoding": "utf-8",
                              "spelling": sp, "final_newline": True, "faults": [], "read_fault": None})
    # configuration A, buffer boundaries: a two-line error span placed just before, across and just after the 8 Ki,
    # 64 Ki and 128 Ki character marks (ASCII padding, and padding with a 2-byte character so that bytes != characters)
    for mark in (8192, 65536, 131072):
        for padline in ("v = 1\n", "\u00e9 = 1\n"):
            for shift in (-2, -1, 0, 1, 2):
                n = mark // len(padline) + shift
                # an error whose reported span starts on one line and ends on the next
                content = padline * n + "x = (1\n 2)\ny = 2\n"
                cases.append({"config": "A", "content": content, "encoding": "utf-8", "spelling": "LF",
                              "final_newline": True, "faults": [], "read_fault": None})
    # configuration R: in-place rewrite of the same path with same-size content under a pinned file-system clock
    by_len: dict[int, list[str]] = {}
    for t in texts:
        if len(t) <= 120:
            by_len.setdefault(len(t.encode("utf-8")), []).append(t)
    rng = rng_for(SEED, PROP, "R")
    groups = [g for g in by_len.values() if len(g) >= 2]
    for _ in range(cfg["r_cases"]):
        g = rng.choice(groups)
        prev, cur = rng.sample(g, 2)
        cases.append({"config": "R", "content": cur, "previous": prev, "encoding": "utf-8", "spelling": "LF",
                      "final_newline": cur.endswith("\n"), "faults": [], "read_fault": None})
    # configuration A, options: the same arguments on both sides
    for ti, t in enumerate(texts):
        if ti % 9 == 0:
            for opts in ({"py_version": [3, 8]}, {"verbose": True}, {"py_version": [3, 6], "verbose": True}):
                if opts.get("verbose") and len(t) > 80:
                    continue
                cases.append({"config": "A", "content": t, "encoding": "utf-8", "spelling": "LF",
                              "final_newline": t.endswith("\n"), "faults": [], "read_fault": None, "opts": opts})
    # configuration B: storage faults
    for ti, t in enumerate(texts):
        rng = rng_for(SEED, PROP, "B", ti)
        others = [rng.choice(texts) for _ in range(3)]
        sp = rng.choice(SPELLINGS)
        base = worldb.respell(t, sp)
        n = 0
        for fault, content in worldb.seeded_faults(base, others, rng, cfg["b_per_text"] * 2):
            if n >= cfg["b_per_text"]:
                break
            try:
                content.encode("utf-8")
            except UnicodeEncodeError:
                continue
            n += 1
            cases.append({"config": "B", "content": content, "encoding": rng.choice(ENCODINGS), "spelling": sp,
                          "final_newline": content.endswith("\n"), "faults": [fault], "read_fault": None, "base": base})
        if len(base) > 2:
            cut = rng.randrange(1, len(base))
            cases.append({"config": "B", "content": base[:cut], "encoding": "utf-8", "spelling": sp,
                          "final_newline": False, "faults": [{"kind": "truncate", "at": cut}], "read_fault": None,
                          "base": base})
    # configuration C: read faults
    rng = rng_for(SEED, PROP, "C")
    multi = [t for t in texts if t.count("\n") >= 1]
    rng.shuffle(multi)
    for t in multi[: cfg["c_texts"]]:
        for _ in range(cfg["c_per_text"]):
            nlines = t.count("\n") + 1
            cases.append({"config": "C", "content": t, "encoding": "utf-8", "spelling": "LF",
                          "final_newline": t.endswith("\n"), "faults": [],
                          "read_fault": {"kind": "eio", "open": rng.choice([1, 1, 2]), "at_call": rng.randrange(1, nlines + 2)}})
    return cases


# ----------------------------------------------------------------------------------------------
# one pair


def _fields_differ(a: tuple, b: tuple) -> list[str]:
    if a[0] != b[0]:
        return ["kind"]
    if a[0] == "ok":
        return ["tree"] if a != b else []
    if a[0] == "syntax":
        names = ["class", "msg", "filename", "lineno", "offset", "end_lineno", "end_offset", "text"]
        return [n for n, x, y in zip(names, a[1:9], b[1:9]) if x != y and n != "filename"]
    if a[0] == "exc":
        return [n for n, x, y in zip(["class", "msg"], a[1:3], b[1:3]) if x != y]
    return [] if a == b else ["other"]


def _site(o: tuple) -> str:
    if o[0] == "syntax":
        return f"{o[1]}@{o[9]}"
    if o[0] == "exc":
        return f"{o[1]}@{o[3]}"
    return o[0]


def _chain_has_injected(o_raw) -> bool:
    e = o_raw
    seen = 0
    while e is not None and seen < 10:
        if isinstance(e, worldb.InjectedReadError):
            return True
        e = e.__cause__ or e.__context__
        seen += 1
    return False


def run_pair(case: dict, env: worldb.SimEnv, scratch: str) -> dict:
    from peg_parser.parser import XonshParser

    content = case["content"]
    env.encoding = case["encoding"]
    env.read_fault_at = None
    env.reset_counters()
    rf = case.get("read_fault")
    if rf:
        env.read_fault_at = rf["at_call"]
        env.read_fault_open_index = rf["open"]
    fired0 = env.read_faults_fired
    prev = case.get("previous")
    if prev is not None:
        # the same path held other content of the same size a moment ago, was parsed, and has been rewritten in place
        # while the file system's clock did not advance (coarse timestamps, cp -p, rsync -t)
        slot = pathlib.Path(scratch) / "slot.xsh"
        for text in (prev, content):
            with builtins.open(slot, "wb") as f:
                f.write(text.encode("utf-8"))
            os.utime(slot, ns=(PINNED_MTIME_NS, PINNED_MTIME_NS))
            if text is prev:
                try:
                    XonshParser.parse_file(slot)
                except BaseException:  # noqa: BLE001 - only its side effects on later calls matter
                    pass
        path = slot
    else:
        path = worldb.store(scratch, content)
    raw_exc = [None]

    opts = case.get("opts") or {}
    kw = {"py_version": tuple(opts["py_version"]) if opts.get("py_version") else None, "verbose": bool(opts.get("verbose"))}

    def file_side():
        try:
            return kernel.canon_tree(XonshParser.parse_file(path, **kw))
        except (worldb._Alarm, worldb._Budget, worldb._Stall):
            raise
        except BaseException as e:  # noqa: BLE001
            raw_exc[0] = e
            return kernel.canon_exception(e)

    def string_side():
        try:
            return kernel.canon_tree(XonshParser.parse_string(content, mode="exec", **kw))
        except (worldb._Alarm, worldb._Budget, worldb._Stall):
            raise
        except BaseException as e:  # noqa: BLE001
            return kernel.canon_exception(e)

    try:
        a, slow_a = worldb.guarded(file_side)
    finally:
        env.read_fault_at = None
        try:
            os.unlink(path)
        except OSError:
            pass
    opens = env.opens
    b, slow_b = worldb.guarded(string_side)
    fired = env.read_faults_fired > fired0
    out = {"file": a, "string": b, "opens": opens, "fault_fired": fired, "slow": slow_a or slow_b, "key": None}
    if a[0] == "budget" and b[0] == "budget":
        out["both_hang"] = True
        return out
    if rf and fired and raw_exc[0] is not None and _chain_has_injected(raw_exc[0]):
        out["fault_surfaced"] = True
        return out
    diff = _fields_differ(a, b)
    if diff:
        out["key"] = f"disagree|{'+'.join(diff)}|{_site(a)}|{_site(b)}"
    return out


def run_batch(batch: list[dict]) -> dict:
    kernel.setup_repo_import()
    import warnings

    warnings.simplefilter("ignore")
    sys.stdout = type("S", (), {"write": lambda s, x: len(x), "flush": lambda s: None})()
    scratch = tempfile.mkdtemp(prefix="vsim-c12-")
    env = worldb.SimEnv(scratch)
    env.install()
    res = {"pairs": 0, "by_config": {}, "violations": [], "counts": {}, "second_opens": 0, "faults_fired": 0,
           "fault_surfaced": 0, "fault_not_reached": 0, "both_hang": 0, "agree_kinds": {}, "nontrivial": set(),
           "default_encoding_opens": 0, "storage_faults": {}, "outcomes": []}
    try:
        for case in batch:
            r = run_pair(case, env, scratch)
            res["pairs"] += 1
            res["by_config"][case["config"]] = res["by_config"].get(case["config"], 0) + 1
            res["second_opens"] += r["opens"] >= 2
            for f in case["faults"]:
                res["storage_faults"][f["kind"]] = res["storage_faults"].get(f["kind"], 0) + 1
            if case.get("read_fault"):
                if r["fault_fired"]:
                    res["faults_fired"] += 1
                    res["fault_surfaced"] += bool(r.get("fault_surfaced"))
                else:
                    res["fault_not_reached"] += 1
            res["both_hang"] += bool(r.get("both_hang"))
            c = case["content"]
            if not (c.isascii() and case["spelling"] == "LF" and r["string"][0] == "ok" and not case["faults"]
                    and not case.get("read_fault")):
                res["nontrivial"].add(hashlib.sha1(repr((c, case["encoding"], case.get("read_fault"))).encode()).digest()[:10])
            if r["key"] is None:
                k = r["string"][0]
                res["agree_kinds"][k] = res["agree_kinds"].get(k, 0) + 1
            else:
                res["counts"][r["key"]] = res["counts"].get(r["key"], 0) + 1
                res["violations"].append({"key": r["key"], "case": case, "file": r["file"], "string": r["string"]})
            if case.get("want_outcome"):
                res["outcomes"].append((case["content"], case["encoding"], worldb.blank_filename(r["file"])))
        res["default_encoding_opens"] = env.default_encoding_opens
    finally:
        env.uninstall()
        shutil.rmtree(scratch, ignore_errors=True)
    per_key = {}
    for v in res["violations"]:
        cur = per_key.get(v["key"])
        if cur is None or len(v["case"]["content"]) < len(cur["case"]["content"]):
            per_key[v["key"]] = v
    res["violations"] = list(per_key.values())
    res["nontrivial"] = len(res["nontrivial"])
    return res


# ----------------------------------------------------------------------------------------------
# real child interpreters (stub fidelity + the property itself under real locales)

REAL_ENVS = {
    "C.UTF-8": ({"LC_ALL": "C.UTF-8"}, [], "utf-8"),
    "C-ascii": ({"LC_ALL": "C", "PYTHONCOERCECLOCALE": "0", "PYTHONUTF8": "0"}, [], "ascii"),
    "C-coerced": ({"LC_ALL": "C"}, [], "utf-8"),
    "X-utf8": ({"LC_ALL": "C", "PYTHONCOERCECLOCALE": "0"}, ["-X", "utf8"], "utf-8"),
}


def _child_main(ip: str, op: str) -> None:
    import locale

    kernel.setup_repo_import()
    import warnings

    warnings.simplefilter("ignore")
    worldb.PLAIN_NAMES = True
    with open(ip, "rb") as f:
        contents = pickle.load(f)
    scratch = tempfile.mkdtemp(prefix="vsim-c12c-")
    env = worldb.SimEnv(scratch)  # not installed: the real open() and the real locale are in charge
    out = []
    try:
        for c in contents:
            case = {"content": c, "encoding": "unused", "read_fault": None}
            r = run_pair(case, env, scratch)
            out.append((worldb.blank_filename(r["file"]), worldb.blank_filename(r["string"]), r["key"]))
    finally:
        shutil.rmtree(scratch, ignore_errors=True)
    with open(op, "wb") as f:
        pickle.dump({"encoding": locale.getencoding(), "utf8_mode": sys.flags.utf8_mode, "results": out}, f)


def run_real_children(contents: list[str]) -> dict:
    d = tempfile.mkdtemp(prefix="vsim-c12r-")
    res = {}
    try:
        ip = os.path.join(d, "in.pkl")
        with open(ip, "wb") as f:
            pickle.dump(contents, f)
        procs = {}
        for name, (envadd, flags, nominal) in REAL_ENVS.items():
            env = {k: v for k, v in os.environ.items() if not k.startswith("LC_") and k not in ("LANG", "PYTHONUTF8", "PYTHONCOERCECLOCALE", "PYTHONIOENCODING")}
            env.update(envadd)
            env["VERIF_REPO"] = kernel.REPO
            op = os.path.join(d, f"out-{name}.pkl")
            code = ("import sys; sys.path.insert(0, %r); from vsimlib import c12; c12._child_main(%r, %r)"
                    % (kernel.VERIF, ip, op))
            procs[name] = (subprocess.Popen([sys.executable, *flags, "-c", code], env=env, stdout=subprocess.DEVNULL,
                                            stderr=subprocess.PIPE), op, nominal)
        for name, (p, op, nominal) in procs.items():
            _, err = p.communicate(timeout=1800)
            if p.returncode != 0:
                raise kernel.HarnessError(f"real-locale child {name} failed: {err.decode(errors='replace')[-1500:]}")
            with open(op, "rb") as f:
                res[name] = pickle.load(f)
            res[name]["nominal"] = nominal
    finally:
        shutil.rmtree(d, ignore_errors=True)
    return res


# ----------------------------------------------------------------------------------------------
# the check


def _minimise_child(args: dict) -> dict:
    kernel.setup_repo_import()
    import warnings

    warnings.simplefilter("ignore")
    case, key = dict(args["case"]), args["key"]
    scratch = tempfile.mkdtemp(prefix="vsim-c12m-")
    env = worldb.SimEnv(scratch)
    env.install()
    deadline = time.monotonic() + args["seconds"]
    tests = 0
    try:
        def bad(s: str) -> bool:
            nonlocal tests
            tests += 1
            c = dict(case)
            c["content"] = s
            return run_pair(c, env, scratch)["key"] == key

        content = case["content"]
        n = 2
        # a rewrite case depends on what the same process parsed before; candidates run in one process here, so
        # shrinking it would measure the minimiser's own history: such cases (<= 120 characters) are kept as they are
        while len(content) >= 2 and time.monotonic() < deadline and case.get("previous") is None:
            chunk = max(1, len(content) // n)
            reduced = False
            for start in range(0, len(content), chunk):
                cand = content[:start] + content[start + chunk:]
                if bad(cand):
                    content, n, reduced = cand, max(n - 1, 2), True
                    break
                if time.monotonic() > deadline:
                    break
            if not reduced:
                if chunk == 1:
                    break
                n = min(len(content), n * 2)
        case["content"] = content
        r = run_pair(case, env, scratch)
    finally:
        env.uninstall()
        shutil.rmtree(scratch, ignore_errors=True)
    return {"case": case, "tests": tests, "file": r["file"], "string": r["string"]}


def check(tier: str) -> int:
    t0 = time.monotonic()
    cfg = TIERS[tier]
    print(f"VERIF_SEED={SEED} property={PROP} tier={tier} jobs={kernel.JOBS} repo={kernel.REPO}")
    kernel.setup_repo_import()
    cases = build_cases(tier)
    # subset repeated in real child interpreters
    rng = rng_for(SEED, PROP, "children")
    a_cases = [c for c in cases if c["config"] == "A"]
    non_ascii = [c for c in a_cases if not c["content"].isascii()]
    pick = rng.sample(a_cases, min(cfg["child_pairs"], len(a_cases))) + non_ascii[: cfg["child_pairs"]]
    child_contents = sorted({c["content"] for c in pick})
    want = set(child_contents)
    for c in cases:
        if c["config"] == "A" and c["content"] in want and c["encoding"] in ("utf-8", "ascii") and not c.get("opts") \
                and c.get("previous") is None:
            c["want_outcome"] = True  # the plain call only: that is what the real child interpreters run
    # heavy cases (large files) get batches of their own and go first, so that they do not queue up behind each other
    heavy = [c for c in cases if len(c["content"]) > 5000]
    light = [c for c in cases if len(c["content"]) <= 5000]
    batches = [[c] for c in sorted(heavy, key=lambda c: -len(c["content"]))]
    batches += [light[i:i + cfg["batch"]] for i in range(0, len(light), cfg["batch"])]
    print(f"{len(cases)} pairs in {len(batches)} batches; {len(child_contents)} contents repeated in {len(REAL_ENVS)} real interpreters")
    report = Report(PROP)
    agg = {"pairs": 0, "by_config": {}, "second_opens": 0, "faults_fired": 0, "fault_surfaced": 0,
           "fault_not_reached": 0, "both_hang": 0, "agree_kinds": {}, "nontrivial": 0, "default_encoding_opens": 0,
           "storage_faults": {}}
    examples: dict[str, dict] = {}
    stub_outcomes: dict[tuple, tuple] = {}
    tr = time.monotonic()
    for idx, (status, res) in kernel.run_tasks(run_batch, batches, wall_timeout=1200.0):
        if status != "ok":
            report.harness(f"batch {idx}: {status}: {res}")
            continue
        for k in ("pairs", "second_opens", "faults_fired", "fault_surfaced", "fault_not_reached", "both_hang",
                  "nontrivial", "default_encoding_opens"):
            agg[k] += res[k]
        for k in ("by_config", "agree_kinds", "storage_faults"):
            for kk, vv in res[k].items():
                agg[k][kk] = agg[k].get(kk, 0) + vv
        for content, enc, o in res["outcomes"]:
            stub_outcomes[(content, enc)] = o
        for v in res["violations"]:
            n = res["counts"][v["key"]]
            report.counts[v["key"]] = report.counts.get(v["key"], 0) + n - 1
            report.add(v["key"], {"size": len(v["case"]["content"]),
                                  "summary": {"config": v["case"]["config"], "content": v["case"]["content"],
                                              "encoding": v["case"]["encoding"], "file": kernel.short(v["file"], 160),
                                              "string": kernel.short(v["string"], 160)}})
            cur = examples.get(v["key"])
            if cur is None or (len(v["case"]["content"]), v["case"]["content"]) < (len(cur["case"]["content"]), cur["case"]["content"]):
                examples[v["key"]] = v
    run_s = time.monotonic() - tr

    # real interpreters: the property itself, and fidelity of the default-encoding stub
    real = run_real_children(child_contents)
    fidelity = {"compared": 0, "mismatches": 0, "envs": {}}
    real_pairs = 0
    for name, r in real.items():
        fidelity["envs"][name] = {"encoding": r["encoding"], "utf8_mode": r["utf8_mode"], "nominal": r["nominal"]}
        norm = r["encoding"].lower().replace("_", "-")
        is_ascii = norm in ("ascii", "ansi-x3.4-1968", "us-ascii", "646")
        if (r["nominal"] == "ascii") != is_ascii and not r["utf8_mode"]:
            report.harness(f"real env {name}: expected nominal {r['nominal']}, interpreter reports {r['encoding']}")
        for content, (fo, so, key) in zip(child_contents, r["results"]):
            real_pairs += 1
            if key is not None:
                k2 = key
                report.add(k2, {"size": len(content), "summary": {"config": f"real:{name}", "content": content,
                                                                   "encoding": r["encoding"], "file": kernel.short(fo, 160),
                                                                   "string": kernel.short(so, 160)}})
                if k2 not in examples or len(content) < len(examples[k2]["case"]["content"]):
                    examples[k2] = {"key": k2, "case": {"config": f"real:{name}", "content": content,
                                                        "encoding": r["nominal"], "spelling": "?", "faults": [],
                                                        "read_fault": None, "real_env": name},
                                    "file": fo, "string": so}
            stub = stub_outcomes.get((content, r["nominal"]))
            if stub is not None:
                fidelity["compared"] += 1
                if kernel.jsonable_tuple(stub) != kernel.jsonable_tuple(fo):
                    fidelity["mismatches"] += 1
                    report.harness(f"stub infidelity under {name}: content {content!r}: stub {kernel.short(stub, 200)} "
                                   f"real {kernel.short(fo, 200)}")

    tm = time.monotonic()
    minimised = {}
    for key in sorted(report.violations, key=lambda k: (len(examples[k]["case"]["content"]), k)):
        v = examples[key]
        left = cfg["min_seconds"] - (time.monotonic() - tm)
        if left > 3 and not v["case"].get("real_env"):
            st, r = kernel.run_in_child(_minimise_child, {"case": v["case"], "key": key, "seconds": min(15.0, left)}, 90.0)
            if st == "ok":
                minimised[key] = r

    def build_replay(key, ex):
        v = examples[key]
        m = minimised.get(key)
        case = m["case"] if m else v["case"]
        return {
            "provenance": {"VERIF_SEED": SEED, "tier": tier, "config": case["config"],
                           "minimiser_tests": m["tests"] if m else 0},
            "base": case.get("base"), "faults": case.get("faults"), "content": case["content"],
            "original_content": v["case"]["content"], "newline": case.get("spelling"),
            "encoding_env": case["encoding"], "real_env": case.get("real_env"), "entry": "parse_file vs parse_string:exec",
            "read_fault": case.get("read_fault"), "previous": case.get("previous"), "opts": case.get("opts"),
            "violation": {"kind": "disagree", "key": key, "got": m["file"] if m else v["file"],
                          "other": m["string"] if m else v["string"]},
        }

    rc = report.finish(build_replay)
    wall = time.monotonic() - t0
    samples = [{"content": c["content"], "encoding": c["encoding"], "spelling": c["spelling"], "config": c["config"],
                "faults": c["faults"], "read_fault": c["read_fault"]}
               for c in (cases[7], cases[len(cases) // 2], cases[-3])]
    coverage = {
        "evaluations": agg["pairs"] + real_pairs,
        "distinct_nontrivial": agg["nontrivial"],
        "rule": "one evaluation = one (stored content, environment) pair: parse_file on the stored UTF-8 bytes under the "
                "simulated default encoding vs parse_string(exec) on the same text. Contents: pool texts and tests/data "
                "files x newline spelling (LF/CRLF/CR/mixed) x final newline (yes/no) x default encoding (utf-8/ascii/"
                "latin-1/cp1252), large files with an error span swept across the 8 Ki / 64 Ki / 128 Ki marks, file-name forms, "
                "py_version / verbose passed to both sides [config A]; the same path rewritten in place with same-size content under a "
                "pinned clock [R]; the same after 1-3 storage faults [B]; EIO at the k-th read of the first or "
                "second open [C]; plus a subset repeated in real child interpreters under four real locale settings. "
                "non-trivial = distinct (content, encoding, read fault) tuples that are not (ASCII, LF, valid, un-faulted).",
        "samples": samples,
        "pairs_by_configuration": agg["by_config"],
        "pairs_in_real_interpreters": real_pairs,
        "real_environments": fidelity["envs"],
        "stub_fidelity": {"compared": fidelity["compared"], "mismatches": fidelity["mismatches"]},
        "storage_faults_by_kind": agg["storage_faults"],
        "read_faults": {"fired": agg["faults_fired"], "surfaced_as_injected_error": agg["fault_surfaced"],
                        "not_reached": agg["fault_not_reached"]},
        "pairs_where_file_was_opened_twice": agg["second_opens"],
        "opens_that_relied_on_default_encoding": agg["default_encoding_opens"],
        "agreeing_outcome_kinds": agg["agree_kinds"],
        "both_sides_nonterminating": agg["both_hang"],
        "pairs_per_hour": round(agg["pairs"] / max(run_s, 1e-9) * 3600),
        "seeds": f"VERIF_SEED={SEED}",
        "violation_classes": sorted(report.violations),
        "known_finding_classes": sorted(report.known_hits),
        "known_finding_counts": {k: report.counts[k] for k in sorted(report.known_hits)},
        "harness_problems": len(report.harness_problems),
        "components": {
            "real": ["peg_parser.*", "real files, io.TextIOWrapper decoding and newline translation",
                     "real CPython locale handling in the child interpreters (C.UTF-8, C/ASCII, coerced C, -X utf8)"],
            "stub": ["default-encoding substitution in open() for latin-1/cp1252 (no such locale installed) and for the "
                     "in-process utf-8/ascii runs (checked against the real interpreters)",
                     "crash model of the writer; EIO injection wrapper"],
        },
    }
    kernel.write_evidence(PROP, tier, "exploration", coverage, [
        "files are UTF-8 without BOM or coding cookie",
        "configuration R: the same path rewritten in place with same-size content while the mtime is pinned",
        "latin-1 and cp1252 default encodings run on the stub only (locales not installed)",
        "a read error may surface as the injected error; otherwise the outcome must equal the string outcome for the full content",
    ], wall, len(report.violations))
    print(f"{PROP} {tier}: {agg['pairs']} pairs + {real_pairs} in real interpreters, {len(report.violations)} violation "
          f"classes, {len(report.known_hits)} known, wall {wall:.1f}s, exit {rc}")
    return rc


def replay(path: str) -> int:
    with open(path, encoding="utf-8") as f:
        data = json.load(f)
    kernel.setup_repo_import()
    key = data["violation"]["key"]
    case = {"config": data["provenance"].get("config", "A"), "content": data["content"],
            "encoding": data["encoding_env"], "read_fault": data.get("read_fault"), "spelling": data.get("newline"),
            "previous": data.get("previous"), "opts": data.get("opts")}
    if data.get("real_env"):
        res = run_real_children([data["content"]])[data["real_env"]]
        fo, so, got = res["results"][0]
    else:
        def one(c):
            import warnings

            warnings.simplefilter("ignore")
            scratch = tempfile.mkdtemp(prefix="vsim-c12p-")
            env = worldb.SimEnv(scratch)
            env.install()
            try:
                return run_pair(c, env, scratch)
            finally:
                env.uninstall()
                shutil.rmtree(scratch, ignore_errors=True)

        st, r = kernel.run_in_child(one, case, 300.0)
        if st != "ok":
            print(f"HARNESS: {st}: {r}")
            return 2
        fo, so, got = r["file"], r["string"], r["key"]
    if got == key:
        print(f"REPRODUCED {key}\n  content: {data['content']!r} (default encoding {data['encoding_env']})\n"
              f"  file:   {kernel.short(fo, 400)}\n  string: {kernel.short(so, 400)}")
        return 1
    print(f"NOT-REPRODUCED {key}; now: {got}")
    return 0
