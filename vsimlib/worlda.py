"""World A — callers.  Serves C13.

Real client threads run real repository code; exactly one is runnable at any moment (baton passing
on raw `_thread` locks), and the seeded scheduler decides inside the `sys.monitoring` LINE callback
who runs next.  A second, single-threaded engine drives long call histories with abort /
resource-exhaustion / cancellation faults.  Reference model: one op in one fresh interpreter.
"""

from __future__ import annotations

import _thread
import ast
import dis
import hashlib
import json
import os
import pathlib
import shutil
import subprocess
import sys
import tempfile
import threading
import time
import types

from . import kernel
from .kernel import REPO, EventLog, rng_for

mon = sys.monitoring
TOOL = 4
TOOL_NAME = "vsim"

_MUTATOR_NAMES = frozenset(
    "append pop clear extend update add remove insert setdefault popitem discard appendleft popleft sort reverse".split()
)
# stores to something that could be shared, and entries into `with` blocks (a context manager that saves and
# restores process-wide state — warnings filters, recursion limit, locale, cwd — opens a race window right there)
_STORE_OPS = frozenset(
    "STORE_ATTR STORE_SUBSCR STORE_GLOBAL DELETE_ATTR DELETE_SUBSCR DELETE_GLOBAL STORE_DEREF BEFORE_WITH".split()
)


class SimClock:
    """The wall clock as the system under test would see it (time.time / monotonic / perf_counter and their _ns
    forms).  It only moves when the simulator moves it: by a little during a call, and by seeded jumps between calls
    (nothing, a second, a minute, an hour, a day, and once in a while backwards for the non-monotonic clock)."""

    JUMPS = [0.0, 0.0, 0.001, 1.0, 61.0, 3601.0, 86401.0, -30.0]

    def __init__(self, seed_parts):
        self.rng = rng_for(*seed_parts, "clock")
        self.wall = 1_760_000_000.0
        self.mono = 1000.0
        self.jumps = 0

    def install(self):
        import time as _t

        _t.time = lambda: self.wall
        _t.time_ns = lambda: int(self.wall * 1e9)
        _t.monotonic = lambda: self.mono
        _t.monotonic_ns = lambda: int(self.mono * 1e9)
        _t.perf_counter = lambda: self.mono
        _t.perf_counter_ns = lambda: int(self.mono * 1e9)

    def advance_after(self, k, idx):
        j = self.rng.choice(self.JUMPS)
        self.jumps += j != 0.0
        self.wall += j
        self.mono += max(j, 0.0) + 1e-4


class StepBudget(BaseException):
    """Raised into the system under test when a run exceeds its budget of simulated steps."""


class _Sink:
    def write(self, s):
        return len(s)

    def flush(self):
        pass

    def isatty(self):
        return False


# ----------------------------------------------------------------------------------------------
# cooperative locks: so that a lock taken by the system under test cannot wedge the baton scheme.
# Installed on `threading` before the repository is imported.  Outside a simulation, or in a thread
# that is not a simulated client, they behave exactly like the real thing.

_CURRENT_SIM = None
_REAL_ALLOCATE = _thread.allocate_lock
LOCK_PROBE = {"created": 0, "contended": 0}


class SimDeadlock(BaseException):
    """A client blocks on a lock that no runnable client can release."""


class CoopLock:
    def __init__(self):
        self._real = _REAL_ALLOCATE()
        LOCK_PROBE["created"] += 1

    def acquire(self, blocking=True, timeout=-1):
        sim = _CURRENT_SIM
        k = sim.ident2k.get(_thread.get_ident()) if sim is not None else None
        if k is None:
            return self._real.acquire(blocking, timeout)
        while True:
            if self._real.acquire(False):
                return True
            if not blocking:
                return False
            LOCK_PROBE["contended"] += 1
            sim.lock_contended(k)

    __enter__ = acquire

    def release(self):
        self._real.release()

    def __exit__(self, *a):
        self.release()

    def locked(self):
        return self._real.locked()


class CoopRLock:
    def __init__(self):
        self._block = CoopLock()
        self._owner = None
        self._count = 0

    def acquire(self, blocking=True, timeout=-1):
        me = _thread.get_ident()
        if self._owner == me:
            self._count += 1
            return True
        ok = self._block.acquire(blocking, timeout)
        if ok:
            self._owner, self._count = me, 1
        return ok

    __enter__ = acquire

    def release(self):
        if self._owner != _thread.get_ident():
            raise RuntimeError("cannot release un-acquired lock")
        self._count -= 1
        if not self._count:
            self._owner = None
            self._block.release()

    def __exit__(self, *a):
        self.release()

    def _is_owned(self):
        return self._owner == _thread.get_ident()


def install_coop_locks() -> None:
    threading.Lock = CoopLock
    threading.RLock = CoopRLock


# ----------------------------------------------------------------------------------------------
# marks: lines of repo code that mutate something that could be shared


def _iter_code(code: types.CodeType):
    yield code
    for c in code.co_consts:
        if isinstance(c, types.CodeType):
            yield from _iter_code(c)


def compute_marks() -> dict[str, frozenset[int]]:
    """filename -> set of line numbers containing a store to an attribute/subscript/global or a
    call of a generic container mutator.  Keyed by filename so that the LINE callback needs a
    single dict lookup to know both 'is this repo code' and 'is this line hot'."""
    marks: dict[str, set[int]] = {}
    for mod in list(sys.modules.values()):
        f = getattr(mod, "__file__", None)
        if not f or not kernel.is_repo_file(os.path.realpath(f)) or not f.endswith(".py"):
            continue
        with open(f, encoding="utf-8") as fh:
            src = fh.read()
        top = compile(src, f, "exec")
        s = marks.setdefault(f, set())
        for code in _iter_code(top):
            line = code.co_firstlineno
            for ins in dis.get_instructions(code):
                if ins.starts_line is not None:
                    line = ins.starts_line
                if ins.opname in _STORE_OPS or (
                    ins.opname in ("LOAD_ATTR", "LOAD_METHOD") and ins.argval in _MUTATOR_NAMES
                ):
                    s.add(line)
        # every statement directly inside a `with` body: whatever the context manager saved on entry and will put
        # back on exit (warnings filters, a limit, a lock-free "current" pointer) is in its in-between state there
        for node in ast.walk(ast.parse(src)):
            if isinstance(node, ast.With | ast.AsyncWith):
                for st in node.body:
                    s.add(st.lineno)
    return {k: frozenset(v) for k, v in marks.items()}


# ----------------------------------------------------------------------------------------------
# ops


def op_key(op: dict) -> str:
    key = [op["op"], op["text"], op.get("mode") or "exec", op.get("py_version") or None, bool(op.get("verbose"))]
    if op.get("warn"):
        key.append("W-error")  # computed in a process that turns warnings into errors (python -W error)
    return json.dumps(key, ensure_ascii=True)


def file_name_for(text: str) -> str:
    return "f_" + hashlib.sha1(text.encode("utf-8", "surrogatepass")).hexdigest()[:10] + ".xsh"


def canon_tokens(toks) -> tuple:
    return ("ok-tokens", tuple((t.type.name, t.string, t.start, t.end, t.line) for t in toks))


PINNED_MTIME_NS = 1_700_000_000_000_000_000


def normalise_outcome(o: tuple) -> tuple:
    """Where exactly the interpreter's recursion limit is hit depends on how deep the *caller* already is (a
    thread body, a monitoring callback, a forked golden child), so a RecursionError is compared as a class only."""
    if o and o[0] == "exc" and o[1] == "RecursionError":
        return ("exc", "RecursionError", "", "-")
    return o


def execute_plain(op: dict, scratch: str) -> tuple[tuple, object]:
    """Run one un-faulted op through the public API.  Returns (canonical outcome, raw result)."""
    from peg_parser.parser import XonshParser
    from peg_parser.tokenize import generate_tokens

    kind = op["op"]
    pyv = tuple(op["py_version"]) if op.get("py_version") else None
    verbose = bool(op.get("verbose"))
    if kind == "parse_string":
        o, raw = kernel.outcome_of(
            XonshParser.parse_string, op["text"], mode=op.get("mode") or "exec", py_version=pyv, verbose=verbose
        )
        return normalise_outcome(o), raw
    if kind == "parse_file":
        # Files live in a few per-client *slots* that are overwritten in place, the way an editor or a sync tool
        # rewrites a script.  With `pin_mtime` the file system's clock does not advance between two writes (coarse
        # timestamps, `cp -p`, `rsync -t`): same path, same size, same mtime, different content.
        slot = op.get("slot")
        name = file_name_for(op["text"]) if slot is None else f"slot_{slot}.xsh"
        path = pathlib.Path(scratch) / name
        if op.get("rel"):
            path = pathlib.Path(name)  # relative to wherever the caller's working directory is right now
        try:
            with open(path, "wb") as f:
                f.write(op["text"].encode("utf-8"))
        except OSError as e:
            import errno

            if e.errno not in (errno.EMFILE, errno.ENFILE):
                raise
            # The harness holds a dozen descriptors at most and the run has a limit of 40 or 64: if the caller cannot
            # even write its file any more, earlier calls have left descriptors open.  That is the outcome of this call.
            return ("exc", "OSError", "descriptor table exhausted before the call could start", "-"), e
        if op.get("pin_mtime"):
            os.utime(path, ns=(PINNED_MTIME_NS, PINNED_MTIME_NS))
        o, raw = kernel.outcome_of(XonshParser.parse_file, path, py_version=pyv, verbose=verbose)
        if o[0] == "syntax":
            o = (*o[:3], "<file>", *o[4:])  # the file name is whatever slot the caller used
        return normalise_outcome(o), raw
    if kind == "tokens":
        try:
            toks = list(generate_tokens(op["text"]))
        except BaseException as e:  # noqa: BLE001
            return normalise_outcome(kernel.canon_exception(e)), e
        return canon_tokens(toks), toks
    if kind == "tokens_iter":
        # the same tokens requested through a caller-supplied readline (an iterator's __next__, EOF by StopIteration)
        lines = op["text"].split("\n")
        it = iter([ln + "\n" for ln in lines[:-1]] + ([lines[-1]] if lines[-1] else []))
        try:
            toks = list(generate_tokens(it.__next__))
        except BaseException as e:  # noqa: BLE001
            return normalise_outcome(kernel.canon_exception(e)), e
        return canon_tokens(toks), toks
    raise kernel.HarnessError(f"unknown op {kind}")


def execute_flood(op: dict) -> tuple:
    """Many distinct, never-seen-before texts in a row (their own outcomes are not judged): whatever bounded cache,
    counter or table the implementation keeps gets pushed past its capacity before the judged ops that follow."""
    from peg_parser.parser import XonshParser

    n_ok = n_err = 0
    tag = op["tag"]
    for i in range(op["n"]):
        # every lexical class gets a never-seen-before member: name, number, string, f-string, path, search path
        if i % 7 == 0:
            text = f"v{tag}_{i} = ({i},\n {i} {i})\n"
        elif i % 7 == 1:
            text = f"w{tag}_{i} = f'f{tag}_{i}{{v{i}}}' + p'/p{tag}_{i}' + `g{tag}_{i}.*`\n"
        else:
            text = f"v{tag}_{i} = 's{tag}_{i}' + {i}.{i} + \"t{tag}_{i}\"\n"
        try:
            XonshParser.parse_string(text, mode="exec" if i % 5 else "eval")
            n_ok += 1
        except (SyntaxError, Exception):  # noqa: BLE001
            n_err += 1
    return ("flood", n_ok, n_err)


def execute_cancel(op: dict) -> tuple:
    """Take k tokens, then abandon the generator (close it or just drop it)."""
    from peg_parser.tokenize import generate_tokens

    f = op["fault"]
    got = 0
    try:
        gen = generate_tokens(op["text"])
        for _ in range(f["after_tokens"]):
            next(gen)
            got += 1
        if f.get("how") == "close":
            gen.close()
        del gen
    except StopIteration:
        return ("cancel", "exhausted", got)
    except BaseException as e:  # noqa: BLE001
        return ("cancel", "raised:" + type(e).__name__, got)
    return ("cancel", f.get("how", "drop"), got)


def mutate_tree(tree: ast.AST) -> None:
    """What a caller may legally do to a tree it was handed — applied to *every* node of that tree, so that
    any node object it shares with another call's tree (or with a later parse) becomes visible: line numbers
    are shifted, every string and integer field is changed and every list field gets an extra element."""
    ast.increment_lineno(tree, 7)
    for node in list(ast.walk(tree)):
        for name, value in list(ast.iter_fields(node)):
            if isinstance(value, list):
                value.append(ast.Constant(value="__vsim_caller_edit__"))
            elif isinstance(value, str):
                setattr(node, name, value + "_m")
            elif isinstance(value, int) and not isinstance(value, bool):
                setattr(node, name, value + 1000)


FAULT_EXC = {"KeyboardInterrupt": KeyboardInterrupt, "MemoryError": MemoryError}


# ----------------------------------------------------------------------------------------------
# golden table: one op in one fresh interpreter (fork from a pristine, never-parsed interpreter)


def _golden_server_main(in_path: str, out_path: str) -> None:
    """Runs inside a fresh interpreter started with its own PYTHONHASHSEED."""
    kernel.setup_repo_import()
    sys.stdout = _Sink()
    with open(in_path, "rb") as f:
        import pickle

        ops = pickle.load(f)
    scratch = tempfile.mkdtemp(prefix="vsim-golden-")
    out = {}
    try:

        def one(op):
            import warnings

            if op.get("warn"):
                warnings.simplefilter("error")  # python -W error: every warning category is an exception
            else:
                warnings.simplefilter("ignore", SyntaxWarning)
            return execute_plain(op, scratch)[0]

        for op in ops:
            status, payload = kernel.run_in_child(one, op, 20.0)
            out[op_key(op)] = payload if status == "ok" else (status, payload)
    finally:
        shutil.rmtree(scratch, ignore_errors=True)
    with open(out_path, "wb") as f:
        import pickle

        pickle.dump(out, f)


def compute_golden(ops: list[dict], hashseed: str, jobs: int | None = None) -> dict[str, tuple]:
    """Golden outcomes for the distinct op keys among `ops`, each from a fresh interpreter state."""
    import pickle

    uniq: dict[str, dict] = {}
    for op in ops:
        uniq.setdefault(op_key(op), {k: op.get(k) for k in ("op", "text", "mode", "py_version", "verbose", "warn")})
    items = list(uniq.values())
    jobs = max(1, min(jobs or kernel.JOBS, len(items) or 1))
    tmp = tempfile.mkdtemp(prefix="vsim-gold-")
    procs = []
    try:
        for j in range(jobs):
            part = items[j::jobs]
            ip, opath = os.path.join(tmp, f"in{j}.pkl"), os.path.join(tmp, f"out{j}.pkl")
            with open(ip, "wb") as f:
                pickle.dump(part, f)
            env = dict(os.environ)
            env["PYTHONHASHSEED"] = hashseed
            env["VERIF_REPO"] = REPO
            code = (
                "import sys; sys.path.insert(0, %r); "
                "from vsimlib import worlda; worlda._golden_server_main(%r, %r)" % (kernel.VERIF, ip, opath)
            )
            procs.append((subprocess.Popen([sys.executable, "-c", code], env=env), opath))
        table: dict[str, tuple] = {}
        for p, opath in procs:
            rc = p.wait(timeout=1800)
            if rc != 0:
                raise kernel.HarnessError(f"golden server exited with {rc}")
            with open(opath, "rb") as f:
                table.update(pickle.load(f))
    finally:
        for p, _ in procs:
            if p.poll() is None:
                p.kill()
        shutil.rmtree(tmp, ignore_errors=True)
    return table


# ----------------------------------------------------------------------------------------------
# scheduling policies


class Policy:
    name = "?"

    def first(self, sim) -> int:
        return sim.alive[0]

    def decide(self, sim, k: int, hot: bool) -> int:
        return k

    def after_death(self, sim) -> int:
        return sim.alive[0]

    def forced(self, sim, k: int) -> int:
        """The running client k blocks (lock contention): who runs instead."""
        later = [a for a in sim.alive if a > k]
        return later[0] if later else sim.alive[0]

    def describe(self) -> dict:
        return {"policy": self.name}


class Serial(Policy):
    name = "serial"


class Uniform(Policy):
    name = "uniform"

    def __init__(self, rng, p, p_hot):
        self.rng, self.p, self.p_hot = rng, p, p_hot

    def first(self, sim):
        return self.rng.choice(sim.alive)

    def decide(self, sim, k, hot):
        if len(sim.alive) > 1 and self.rng.random() < (self.p_hot if hot else self.p):
            others = [a for a in sim.alive if a != k]
            return self.rng.choice(others)
        return k

    def after_death(self, sim):
        return self.rng.choice(sim.alive)

    def describe(self):
        return {"policy": self.name, "p": self.p, "p_hot": self.p_hot}


class RoundRobin(Policy):
    name = "rr"

    def __init__(self, rng, quantum):
        self.quantum = quantum
        self.rng = rng

    def decide(self, sim, k, hot):
        if sim.seg_steps >= self.quantum and len(sim.alive) > 1:
            later = [a for a in sim.alive if a > k]
            return later[0] if later else sim.alive[0]
        return k

    def describe(self):
        return {"policy": self.name, "quantum": self.quantum}


class PCT(Policy):
    name = "pct"

    def __init__(self, rng, n, d, horizon, biased):
        pr = list(range(d, d + n))
        rng.shuffle(pr)
        self.prio = pr
        self.low = d - 1
        # half of the change points fall into the first steps of the run: first-use initialisation (lazily built
        # tables, caches filled on the first call) happens there and nowhere else in the life of a process
        self.cps = sorted(rng.randrange(1, 120) if rng.random() < 0.5 else rng.randrange(1, max(2, horizon))
                          for _ in range(d - 1))
        self.biased = biased
        self.d = d

    def _best(self, sim):
        return max(sim.alive, key=lambda a: self.prio[a])

    def first(self, sim):
        return self._best(sim)

    def decide(self, sim, k, hot):
        if self.cps and sim.step >= self.cps[0] and (hot or not self.biased):
            self.cps.pop(0)
            self.prio[k] = self.low
            self.low -= 1
            return self._best(sim)
        return k

    def after_death(self, sim):
        return self._best(sim)

    def describe(self):
        return {"policy": self.name, "d": self.d, "biased": self.biased}


class Follow(Policy):
    """Replay: follow a recorded segment list [[thread, n_events]]; n = -1 means to completion.
    Robust against lists that no longer fit (minimiser candidates): dead threads are skipped and an
    exhausted list falls back to serial execution in thread order."""

    name = "follow"

    def __init__(self, segments):
        self.segs = [list(s) for s in segments]
        self.i = -1

    def _advance(self, sim) -> int:
        while True:
            self.i += 1
            if self.i >= len(self.segs):
                return sim.alive[0]
            t, n = self.segs[self.i]
            if t in sim.alive and n != 0:
                return t

    def first(self, sim):
        return self._advance(sim)

    def decide(self, sim, k, hot):
        if self.i >= len(self.segs):
            return k
        t, n = self.segs[self.i]
        if t != k:
            return k
        if n >= 0 and sim.seg_steps >= n:
            return self._advance(sim)
        return k

    def after_death(self, sim):
        return self._advance(sim)

    def forced(self, sim, k):
        t = self._advance(sim)
        return t if t != k else Policy.forced(self, sim, k)


def make_policy(rng, n_threads: int, horizon: int, granularity: str = "line") -> Policy:
    kind = rng.choice(["uniform", "uniform", "pct", "pct", "rr", "serial"])
    if n_threads == 1:
        return Serial()
    if kind == "uniform":
        p = rng.choice([1e-2, 1e-3, 1e-4])
        return Uniform(rng, p, rng.choice([p, 0.02, 0.1, 0.3]))
    if kind == "pct":
        return PCT(rng, n_threads, rng.choice([1, 2, 3, 4]), horizon, rng.random() < 0.5)
    if kind == "rr":
        quanta = [1, 7, 97, 1009] if granularity == "line" else [7, 97, 1009, 10007]
        return RoundRobin(rng, rng.choice(quanta))
    return Serial()


# ----------------------------------------------------------------------------------------------
# the schedule engine


class ScheduleSim:
    def __init__(self, threads: list[list[dict]], policy: Policy, marks, cap: int, scratch: str,
                 granularity: str = "line"):
        self.granularity = granularity
        self.clock = None
        self._hot_offsets: dict[int, frozenset[int]] = {}
        self.scripts = threads
        self.n = len(threads)
        self.policy = policy
        self.marks = marks
        self.cap = cap
        self.scratch = scratch
        self.gates = [_thread.allocate_lock() for _ in range(self.n)]
        for g in self.gates:
            g.acquire()
        self.done = _thread.allocate_lock()
        self.done.acquire()
        self.alive = list(range(self.n))
        self.ident2k: dict[int, int] = {}
        self.step = 0
        self.seg_steps = 0
        self.segments: list[list[int]] = []
        self.hot = [False] * self.n
        self.inop = [False] * self.n
        self.opstep = [0] * self.n
        self.abort_at: list[int | None] = [None] * self.n
        self.abort_biased = [False] * self.n
        self.abort_exc: list[BaseException | None] = [None] * self.n
        self.budget_raised = [False] * self.n
        self.over = False
        self.log = EventLog()
        self.results: list[list[dict]] = [[] for _ in range(self.n)]
        self.held: list[tuple[int, int, object, str]] = []
        self.last_fn = ["<start>"] * self.n
        # probes
        self.switches = 0
        self.overlap_switches = 0
        self.fn_pairs: set[tuple[str, str]] = set()
        self.aborts_fired: list[tuple[str, str]] = []
        self.errors: list[str] = []

    # -- monitoring callback (runs in the client thread that owns the baton) --
    def on_line(self, code, line):
        m = self.marks.get(code.co_filename)
        if m is None:
            return mon.DISABLE
        k = self.ident2k.get(_thread.get_ident())
        if k is None:
            return None
        self._event(k, line in m, code.co_name, line)
        return None

    def on_instruction(self, code, offset):
        """Bytecode-granularity pre-emption: one event per instruction of repository code."""
        m = self.marks.get(code.co_filename)
        if m is None:
            return mon.DISABLE
        k = self.ident2k.get(_thread.get_ident())
        if k is None:
            return None
        hot = self._hot_offsets.get(id(code))
        if hot is None:
            hot = frozenset(
                ins.offset for ins in dis.get_instructions(code)
                if ins.opname in _STORE_OPS or (ins.opname in ("LOAD_ATTR", "LOAD_METHOD") and ins.argval in _MUTATOR_NAMES)
            )
            self._hot_offsets[id(code)] = hot
        # at this granularity an event is also hot when the instruction about to run is itself a store: the
        # window of a read-modify-write race lies between the load and the store
        self._event(k, offset in hot, code.co_name, offset, offset in hot)
        return None

    def _event(self, k, now_hot, fn, line, pre_hot=False):
        self.step += 1
        self.seg_steps += 1
        if self.step > self.cap:
            self.over = True
        if self.over and not self.budget_raised[k] and self.inop[k]:
            self.budget_raised[k] = True
            raise StepBudget(f"{fn}:{line}")
        hot = self.hot[k] or pre_hot
        self.hot[k] = now_hot
        if self.inop[k]:
            self.opstep[k] += 1
            a = self.abort_at[k]
            if a is not None and self.opstep[k] >= a and (hot or not self.abort_biased[k]):
                self.abort_at[k] = None
                exc = self.abort_exc[k]
                self.aborts_fired.append((type(exc).__name__, fn))
                self.log.add(k, "abort", (type(exc).__name__, fn, line, self.opstep[k]))
                raise exc
        nxt = self.policy.decide(self, k, hot)
        if nxt != k:
            self._switch(k, nxt, fn, line)

    def _switch(self, k, nxt, fn, line):
        # the only Python-level call comes first: if the client is at its recursion limit it fails here, before any
        # scheduler state has changed, and the RecursionError reaches the client as if its own code had hit the limit
        self.log.add(k, "switch", (nxt, fn, line, self.step + 0))
        self.segments.append([k, self.seg_steps])
        self.seg_steps = 0
        self.switches += 1
        if self.inop[nxt] or self.inop[k]:
            if any(self.inop[j] for j in self.alive if j != nxt):
                self.overlap_switches += 1
        self.last_fn[k] = fn
        self.fn_pairs.add((fn, self.last_fn[nxt]))
        self.gates[nxt].release()
        self.gates[k].acquire()

    def lock_contended(self, k):
        """Called by a cooperative lock when client k would block."""
        self.step += 1
        self.seg_steps += 1
        if self.step > self.cap:
            self.over = True
        if self.over:
            raise StepBudget("lock")
        if len(self.alive) < 2:
            raise SimDeadlock(f"client {k} blocks on a lock nobody can release")
        self._switch(k, self.policy.forced(self, k), "<lock>", 0)

    def boundary(self, k):
        """Op boundary: a pre-emption point outside repository code."""
        self._event(k, True, "<boundary>", 0)

    # -- client threads --
    def _body(self, k, start=0, has_baton=False):
        self.ident2k[_thread.get_ident()] = k
        if not has_baton:
            self.gates[k].acquire()
        handed_over = False
        try:
            prev_steps = 0
            for idx, op in enumerate(self.scripts[k]):
                if idx < start:
                    continue
                if op["op"] == "respawn":
                    # the client's thread ends here and a NEW thread (new thread-locals, possibly the recycled id of
                    # a thread that has ended) carries on with the rest of its calls; the baton goes with it
                    self.log.add(k, "respawn", idx)
                    self.results[k].append({"id": op.get("id"), "key": None, "fault": None, "steps": 0,
                                            "outcome": ("respawned",)})
                    t = threading.Thread(target=self._body, args=(k, idx + 1, True), daemon=True)
                    handed_over = True
                    t.start()
                    return
                try:
                    self.boundary(k)
                except StepBudget:
                    pass
                rec = self._run_op(k, idx, op, prev_steps)
                prev_steps = rec["steps"]
                self.results[k].append(rec)
                if self.clock is not None:
                    self.clock.advance_after(k, idx)
        except BaseException as e:  # noqa: BLE001
            import traceback

            self.errors.append(f"thread {k}: {type(e).__name__}: {e}\n{traceback.format_exc()}")
        finally:
            if handed_over:
                return  # noqa: B012 - the successor thread does the bookkeeping when the script ends
            self.segments.append([k, -1])
            self.seg_steps = 0
            self.alive.remove(k)
            if self.alive:
                nxt = self.policy.after_death(self)
                self.log.add(k, "end", nxt)
                self.gates[nxt].release()
            else:
                self.log.add(k, "end", None)
                self.done.release()

    def _run_op(self, k, idx, op, prev_steps):
        fault = op.get("fault")
        rec = {"id": op.get("id"), "key": op_key(op) if "text" in op else None, "fault": fault, "steps": 0}
        self.log.add(k, "invoke", (idx, op["op"], fault and fault.get("kind")))
        if op["op"] == "mutate":
            target = next((h for h in self.held if h[0] == k and h[1] == op["of"]), None)
            if target is not None:
                mutate_tree(target[2])
                self.held = [h for h in self.held if h is not target]
                rec["outcome"] = ("mutated",)
            else:
                rec["outcome"] = ("mutate-skipped",)
            self.log.add(k, "return", (idx, rec["outcome"]))
            return rec
        self.opstep[k] = 0
        self.budget_raised[k] = False
        if op["op"] == "flood":
            self.inop[k] = True
            try:
                rec["outcome"] = execute_flood(op)
            except StepBudget as e:
                rec["outcome"] = ("budget", str(e))
            finally:
                self.inop[k] = False
            rec["steps"] = self.opstep[k]
            self.log.add(k, "return", (idx, rec["outcome"]))
            return rec
        if fault and fault["kind"] == "cancel":
            self.inop[k] = True
            try:
                rec["outcome"] = execute_cancel(op)
            except StepBudget as e:
                rec["outcome"] = ("budget", str(e))
            finally:
                self.inop[k] = False
            rec["steps"] = self.opstep[k]
            self.log.add(k, "return", (idx, rec["outcome"]))
            return rec
        injected = None
        if fault and fault["kind"] == "abort":
            at = fault.get("at_step")
            if at is None:
                at = max(1, int(fault["frac"] * max(prev_steps, 1)))
                fault["at_step"] = at
            injected = FAULT_EXC[fault["exc"]](f"vsim-injected-{k}-{idx}")
            self.abort_at[k] = at
            self.abort_biased[k] = bool(fault.get("biased"))
            self.abort_exc[k] = injected
        self.inop[k] = True
        try:
            outcome, raw = execute_plain(op, self.scratch)
        except StepBudget as e:
            outcome, raw = ("budget", str(e)), None
        except SimDeadlock as e:
            outcome, raw = ("budget", "deadlock:" + str(e)), None
        finally:
            self.inop[k] = False
            fired = injected is not None and self.abort_at[k] is None
            self.abort_at[k] = None
        if isinstance(raw, StepBudget | SimDeadlock):
            outcome = ("budget", str(raw))
        rec["steps"] = self.opstep[k]
        rec["outcome"] = outcome
        if injected is not None:
            if not fired:
                rec["fault_result"] = "not-reached"
            elif raw is injected:
                rec["fault_result"] = "escaped-identical"
            elif isinstance(raw, BaseException):
                rec["fault_result"] = "translated:" + type(raw).__name__
            else:
                rec["fault_result"] = "swallowed"
        elif isinstance(raw, ast.AST):
            self.held.append((k, op.get("id"), raw, outcome[1]))
        self.log.add(k, "return", (idx, outcome[0], hashlib.sha1(repr(outcome).encode()).hexdigest()[:12]))
        return rec

    def run(self, wall: float) -> bool:
        global _CURRENT_SIM
        _CURRENT_SIM = self
        if mon.get_tool(TOOL) is None:
            mon.use_tool_id(TOOL, TOOL_NAME)
        if self.granularity == "instruction":
            event = mon.events.INSTRUCTION
            mon.register_callback(TOOL, event, self.on_instruction)
        else:
            event = mon.events.LINE
            mon.register_callback(TOOL, event, self.on_line)
        threads = [threading.Thread(target=self._body, args=(k,), daemon=True) for k in range(self.n)]
        for t in threads:
            t.start()
        # every thread is parked on its gate before events are switched on
        mon.set_events(TOOL, event)
        mon.restart_events()
        first = self.policy.first(self)
        self.log.add(None, "start", first)
        self.gates[first].release()
        ok = self.done.acquire(timeout=wall)
        mon.set_events(TOOL, 0)
        if ok:
            for t in threads:
                t.join(5.0)
        return ok


def run_schedule_task(task: dict) -> dict:
    """Executes one schedule-engine run (in a forked child of a pristine interpreter)."""
    sys.stdout = _Sink()
    scratch = tempfile.mkdtemp(prefix="vsim-a-")
    try:
        threads = task["threads"]
        if task.get("schedule") is not None:
            policy: Policy = Follow(task["schedule"])
        else:
            rng = rng_for(*task["seed_parts"], "policy")
            if task.get("policy_hint") == "uniform-hot" and len(threads) > 1:
                policy = Uniform(rng, rng.choice([1e-3, 1e-4]), rng.choice([0.1, 0.3, 0.5]))
            else:
                policy = make_policy(rng, len(threads), task.get("horizon", 20000), task.get("granularity", "line"))
        sim = ScheduleSim(threads, policy, _MARKS, task.get("cap", 5_000_000), scratch,
                          task.get("granularity", "line"))
        real_monotonic = time.monotonic
        t0 = real_monotonic()
        if task.get("sim_clock"):
            sim.clock = SimClock(task.get("seed_parts") or ["replay"])
            sim.clock.install()
        finished = sim.run(task.get("wall", 300.0))
        wall = real_monotonic() - t0
        # re-dump held trees: no later parse may have altered them
        altered = []
        if finished:
            for k, opid, tree, dump0 in sim.held:
                d1 = kernel.stable_dump(tree)
                if d1 != dump0:
                    altered.append({"thread": k, "id": opid, "before": dump0, "after": d1})
        return {
            "finished": finished,
            "results": sim.results,
            "altered": altered,
            "segments": sim.segments,
            "digest": sim.log.digest(),
            "steps": sim.step,
            "switches": sim.switches,
            "overlap_switches": sim.overlap_switches,
            "fn_pairs": sorted(sim.fn_pairs),
            "aborts_fired": sim.aborts_fired,
            "policy": policy.describe(),
            "granularity": sim.granularity,
            "errors": sim.errors,
            "threads": threads,  # with at_step filled in: the literal trace
            "wall": wall,
            "over": sim.over,
            "lock_probe": dict(LOCK_PROBE),
            "clock_jumps": sim.clock.jumps if sim.clock else 0,
        }
    finally:
        shutil.rmtree(scratch, ignore_errors=True)


# ----------------------------------------------------------------------------------------------
# the history engine (one caller, long histories, faults; only faulted ops are monitored)


class _Counter:
    """LINE callback used by the history engine for one op: counts steps, optionally raises."""

    def __init__(self, marks):
        self.marks = marks
        self.steps = 0
        self.at = None
        self.exc = None
        self.biased = False
        self.hot = False
        self.fired_in = None

    def __call__(self, code, line):
        m = self.marks.get(code.co_filename)
        if m is None:
            return mon.DISABLE
        self.steps += 1
        hot, self.hot = self.hot, line in m
        if self.at is not None and self.steps >= self.at and (hot or not self.biased):
            self.at = None
            self.fired_in = code.co_name
            raise self.exc
        return None


def run_history_task(task: dict) -> dict:
    sys.stdout = _Sink()
    scratch = tempfile.mkdtemp(prefix="vsim-h-")
    log = EventLog()
    results = []
    held: list[tuple[object, object, str]] = []
    held_exceptions: list[BaseException] = []
    aborts_fired = []
    home = os.getcwd()
    counter = _Counter(_MARKS)
    if mon.get_tool(TOOL) is None:
        mon.use_tool_id(TOOL, TOOL_NAME)
    mon.register_callback(TOOL, mon.events.LINE, counter)
    base_limit = sys.getrecursionlimit()
    clock = None
    if task.get("sim_clock"):
        clock = SimClock(["hist", task.get("run", 0)])
        clock.install()
    if task.get("fd_limit"):
        # resource exhaustion as a configuration: a process that may only have a few dozen files open notices a
        # descriptor leaked on some path of parse_file after a few dozen calls instead of after a thousand
        import resource

        soft, hard = resource.getrlimit(resource.RLIMIT_NOFILE)
        resource.setrlimit(resource.RLIMIT_NOFILE, (min(task["fd_limit"], hard), hard))
    gc_every = task.get("gc_every")
    try:
        prev_steps = 0
        for idx, op in enumerate(task["ops"]):
            if clock is not None and idx:
                clock.advance_after(0, idx)
            if gc_every and idx % gc_every == gc_every - 1:
                import gc

                gc.collect()  # finalisers and weak-reference callbacks run now, between two calls
            fault = op.get("fault")
            rec = {"id": op.get("id"), "key": op_key(op) if "text" in op else None, "fault": fault, "steps": 0}
            log.add(0, "invoke", (idx, op["op"], fault and fault.get("kind")))
            if op["op"] == "mutate":
                target = next((h for h in held if h[0] == op["of"]), None)
                if target is not None:
                    mutate_tree(target[1])
                    held = [h for h in held if h is not target]
                    rec["outcome"] = ("mutated",)
                else:
                    rec["outcome"] = ("mutate-skipped",)
            elif op["op"] == "flood":
                rec["outcome"] = execute_flood(op)
            elif op["op"] == "chdir":
                # the caller changes its working directory (a shell does that all the time); relative paths given to
                # parse_file afterwards mean files in the new directory
                d = os.path.join(scratch, f"cwd{op['to']}")
                os.makedirs(d, exist_ok=True)
                os.chdir(d)
                rec["outcome"] = ("chdir", op["to"])
            elif fault and fault["kind"] == "cancel":
                rec["outcome"] = execute_cancel(op)
            elif fault and fault["kind"] == "recursion_limit":
                depth, fr = 0, sys._getframe()
                while fr is not None:
                    depth, fr = depth + 1, fr.f_back
                try:
                    sys.setrecursionlimit(depth + fault["headroom"])
                    outcome, raw = execute_plain(op, scratch)
                finally:
                    sys.setrecursionlimit(base_limit)
                rec["outcome"] = outcome
                rec["fault_result"] = (
                    "died:" + type(raw).__name__ if isinstance(raw, BaseException) else "survived"
                )
            elif (fault and fault["kind"] == "abort") or op.get("monitor"):
                counter.steps = 0
                counter.hot = False
                counter.fired_in = None
                injected = None
                if fault:
                    at = fault.get("at_step")
                    if at is None:
                        at = max(1, int(fault["frac"] * max(prev_steps, 1)))
                        fault["at_step"] = at
                    injected = FAULT_EXC[fault["exc"]](f"vsim-injected-{idx}")
                    counter.at, counter.exc, counter.biased = at, injected, bool(fault.get("biased"))
                mon.set_events(TOOL, mon.events.LINE)
                try:
                    outcome, raw = execute_plain(op, scratch)
                finally:
                    mon.set_events(TOOL, 0)
                    fired = injected is not None and counter.at is None
                    counter.at = None
                rec["outcome"] = outcome
                rec["steps"] = prev_steps = counter.steps
                if injected is not None:
                    if not fired:
                        rec["fault_result"] = "not-reached"
                    else:
                        aborts_fired.append((type(injected).__name__, counter.fired_in))
                        log.add(0, "abort", (type(injected).__name__, counter.fired_in, counter.steps))
                        if raw is injected:
                            rec["fault_result"] = "escaped-identical"
                        elif isinstance(raw, BaseException):
                            rec["fault_result"] = "translated:" + type(raw).__name__
                        else:
                            rec["fault_result"] = "swallowed"
                elif isinstance(raw, ast.AST):
                    held.append((op.get("id"), raw, outcome[1]))
            else:
                outcome, raw = execute_plain(op, os.getcwd() if op.get("rel") else scratch)
                rec["outcome"] = outcome
                if isinstance(raw, ast.AST):
                    held.append((op.get("id"), raw, outcome[1]))
                elif isinstance(raw, BaseException):
                    held_exceptions.append(raw)  # a caller may keep what was raised at it (traceback and all)
            o = rec["outcome"]
            log.add(0, "return", (idx, o[0], hashlib.sha1(repr(o).encode()).hexdigest()[:12]))
            results.append(rec)
        altered = []
        for opid, tree, dump0 in held:
            d1 = kernel.stable_dump(tree)
            if d1 != dump0:
                altered.append({"thread": 0, "id": opid, "before": dump0, "after": d1})
        return {
            "finished": True,
            "results": [results],
            "altered": altered,
            "digest": log.digest(),
            "aborts_fired": aborts_fired,
            "ops": task["ops"],
            "errors": [],
        }
    finally:
        sys.setrecursionlimit(base_limit)
        os.chdir(home)
        shutil.rmtree(scratch, ignore_errors=True)


_MARKS: dict[str, frozenset[int]] = {}


def init_world() -> None:
    """Called once in the pristine parent (imports the repo, never parses)."""
    global _MARKS
    install_coop_locks()
    kernel.setup_repo_import()
    _MARKS = compute_marks()
