"""C13 — parsing is a pure function: deterministic, history-free, thread-safe.

Workload generation, judging against the fresh-interpreter golden table, minimisation, replay and
evidence for World A."""

from __future__ import annotations

import copy
import json
import os
import subprocess
import sys
import time

from . import kernel, pool, worlda
from .kernel import SEED, Report, rng_for

PROP = "C13"

TIERS = {
    # schedule runs, history runs, minimiser candidate bound
    "quick": {"sched": 2000, "hist": 2300, "min_candidates": 150, "min_classes": 3, "min_seconds": 90,
              "instr_frac": 0.12},
    "thorough": {"sched": 30000, "hist": 30000, "min_candidates": 400, "min_classes": 12, "min_seconds": 900,
                 "instr_frac": 0.2},
}


# ----------------------------------------------------------------------------------------------
# op specs and workload generation


def build_opspecs(texts: list[str]) -> list[dict]:
    specs = []
    for j, t in enumerate(texts):
        specs.append({"op": "parse_string", "text": t, "mode": "exec"})
        if pool.looks_like_expression(t):
            specs.append({"op": "parse_string", "text": t, "mode": "eval"})
        if j % 7 == 0 and len(t) <= 120:
            specs.append({"op": "parse_string", "text": t, "mode": "exec", "verbose": True})
        if j % 5 == 0:
            specs.append({"op": "parse_string", "text": t, "mode": "exec", "py_version": [3, 8]})
        if j % 3 == 0:
            specs.append({"op": "parse_file", "text": t})
        if j % 4 == 0:
            specs.append({"op": "tokens", "text": t})
        if j % 8 == 1:
            specs.append({"op": "tokens_iter", "text": t})
    for a, b in pool.PREFIX_SHARING + pool.ALIASING:
        for t in (a, b):
            specs.append({"op": "parse_string", "text": t, "mode": "exec"})
    for t in pool.CARRIERS:
        if len(t) <= pool.MAX_LEN:
            specs.append({"op": "parse_string", "text": t, "mode": "exec"})
            specs.append({"op": "parse_string", "text": t, "mode": "exec", "py_version": [3, 8]})
            specs.append({"op": "parse_file", "text": t})
    # version-sensitive texts under every grammar level a caller may ask for (old ones included)
    for t in pool.KEYWORD_NAMES + [c for c in pool.CARRIERS if c.startswith(("try:", "type ", "def f[", "match ", "with (", "x = (y", "def f(a, /"))]:
        for pv in pool.PY_VERSIONS:
            specs.append({"op": "parse_string", "text": t, "mode": "exec", "py_version": pv})
    # the same calls in a process run with -W error::SyntaxWarning (texts whose literals may make the evaluator warn,
    # and a sample of others)
    for j, t in enumerate(texts):
        if "\\" in t or j % 23 == 0:
            specs.append({"op": "parse_string", "text": t, "mode": "exec", "warn": True})
            if j % 3 == 0:
                specs.append({"op": "parse_file", "text": t, "warn": True})
    for t in pool.KEYWORD_NAMES[:6]:
        for pv in pool.PY_VERSIONS:
            specs.append({"op": "parse_string", "text": t, "mode": "exec", "py_version": pv, "warn": True})
    for t in pool.DEEP:
        specs.append({"op": "parse_string", "text": t, "mode": "exec"})
        specs.append({"op": "parse_file", "text": t})
    # whole data files (up to 20 kB): only the history engine draws them, a monitored parse of one takes seconds
    for _rel, content in pool.data_files(20000):
        if len(content) > pool.MAX_LEN and pool._nesting(content) <= pool.MAX_NEST:
            specs.append({"op": "parse_string", "text": content, "mode": "exec", "big": True})
            specs.append({"op": "parse_file", "text": content, "big": True})
    seen = set()
    out = []
    for s in specs:
        k = worlda.op_key(s)
        if k not in seen:
            seen.add(k)
            out.append(s)
    return out


class Workload:
    def __init__(self, specs: list[dict], golden: dict | None = None):
        golden = golden or {}
        # calls that really do end in a SyntaxWarning-turned-error in a fresh process
        self.warners = [s for s in specs if s.get("warn")
                        and (golden.get(worlda.op_key(s)) or ("",))[:2] == ("exc", "SyntaxWarning")]
        self.big = [s for s in specs if s.get("big")]
        self.warnish = [s for s in specs if s.get("warn")]
        specs = [s for s in specs if not s.get("big") and not s.get("warn")]
        self.specs = specs
        self.small = [s for s in specs if len(s["text"]) <= 60]
        self.pairs = pool.PREFIX_SHARING + pool.ALIASING
        self.carriers = [s for s in specs if s["text"] in set(pool.CARRIERS)]
        self.versioned = [s for s in specs if s.get("py_version") and s["text"] in set(pool.KEYWORD_NAMES)]
        self.keywordish = [s for s in specs if not s.get("py_version") and s["text"] in set(pool.KEYWORD_NAMES)]
        self.deep = [s for s in specs if s["text"] in set(pool.DEEP)]
        self.by_len: dict[int, list[dict]] = {}
        for s in specs:
            if s["op"] == "parse_file" and len(s["text"]) <= 120:
                self.by_len.setdefault(len(s["text"].encode()), []).append(s)

    def pick(self, rng, small_bias=0.7) -> dict:
        r = rng.random()
        if r < 0.05 and self.versioned:
            return dict(rng.choice(self.versioned))
        if 0.07 <= r < 0.11 and self.keywordish:
            return dict(rng.choice(self.keywordish))
        if r < 0.07 and self.deep:
            return dict(rng.choice(self.deep))
        if r < 0.25 and self.carriers:
            return dict(rng.choice(self.carriers))
        if r < small_bias:
            return dict(rng.choice(self.small))
        return dict(rng.choice(self.specs))

    def _assign_slots(self, rng, script: list[dict], prefix: str, replace: bool = True) -> list[dict]:
        """parse_file ops overwrite one of two per-client slots in place; sometimes the next file has the same size
        as the one it replaces and the clock does not advance (pinned mtime)."""
        out = []
        last: dict[int, dict] = {}
        pin = rng.random() < 0.5
        for op in script:
            if op["op"] == "parse_file":
                op = dict(op)
                slot = rng.randrange(2)
                prev = last.get(slot)
                if prev is not None and replace and rng.random() < 0.5:
                    same = [s for s in self.by_len.get(len(prev["text"].encode()), []) if s["text"] != prev["text"]]
                    if same:
                        repl = dict(rng.choice(same))
                        repl.update({k: v for k, v in op.items() if k in ("py_version", "verbose")})
                        op = repl
                op["slot"] = f"{prefix}{slot}"
                op["pin_mtime"] = pin
                last[slot] = op
            out.append(op)
        return out

    def _add_faults(self, rng, script: list[dict], p_abort, p_cancel, p_mutate, recursion=False) -> list[dict]:
        out: list[dict] = []
        for op in script:
            r = rng.random()
            if "text" not in op:
                out.append(op)
            elif r < p_abort and op["op"] in ("parse_string", "parse_file"):
                plain = dict(op)
                plain["monitor"] = True  # history engine: count steps; schedule engine: always monitored
                out.append(plain)
                f = dict(op)
                f["fault"] = {
                    "kind": "abort",
                    "exc": rng.choice(["KeyboardInterrupt", "MemoryError"]),
                    "frac": rng.random(),
                    "biased": rng.random() < 0.5,
                }
                out.append(f)
            elif r < p_abort + p_cancel:
                f = {"op": "tokens", "text": op["text"]}
                f["fault"] = {
                    "kind": "cancel",
                    "after_tokens": rng.randrange(0, 12),
                    "how": rng.choice(["close", "drop"]),
                }
                out.append(f)
                out.append(op)
            elif recursion and r < p_abort + p_cancel + 0.06 and op["op"] in ("parse_string", "parse_file"):
                f = dict(op)
                f["fault"] = {"kind": "recursion_limit", "headroom": rng.randrange(15, 160)}
                out.append(f)
                out.append(op)
            else:
                out.append(op)
        # a fault inside the very first call of the process: no un-faulted copy runs before it, the instant is an
        # absolute early step (first-use initialisation is only ever executed there)
        if out and "text" in out[0] and not out[0].get("fault") and out[0]["op"] in ("parse_string", "parse_file") \
                and rng.random() < p_abort * 1.5:
            first = dict(out[0])
            first["fault"] = {"kind": "abort", "exc": rng.choice(["KeyboardInterrupt", "MemoryError"]),
                              "at_step": rng.randrange(1, 140), "biased": rng.random() < 0.5}
            out.insert(0, first)
        for n, op in enumerate(out):
            op["id"] = n
        if rng.random() < p_mutate and len(out) >= 2:
            cands = [op for op in out[:-1] if not op.get("fault") and op["op"] in ("parse_string", "parse_file")]
            if cands:
                tgt = rng.choice(cands)
                pos = rng.randrange(tgt["id"] + 1, len(out) + 1)
                out.insert(pos, {"op": "mutate", "of": tgt["id"]})
                # parse the same text again later: must still be golden
                out.append({k: v for k, v in tgt.items() if k not in ("id", "monitor")})
                next_id = max(o.get("id", -1) for o in out) + 1
                for op in out:
                    if "id" not in op:
                        op["id"] = next_id
                        next_id += 1
        return out

    def schedule_task(self, i: int, tier: str) -> dict:
        rng = rng_for(SEED, PROP, "sched", i)
        n = rng.choice([2, 2, 2, 3, 3, 4, 4, 5, 6])
        scripts: list[list[dict]] = [[] for _ in range(n)]
        family = rng.choice(["pair", "pair", "same", "pool", "pool", "carrier"])
        warn_run = rng.random() < 0.06 and bool(self.warnish)
        if warn_run:
            family = "warn"
            for k in range(n):
                scripts[k] = [dict(rng.choice(self.warnish)) for _ in range(rng.randrange(2, 5))]
                if self.warners:
                    scripts[k].append(dict(rng.choice(self.warners)))  # a call whose outcome depends on the filters
        if family == "pair":
            a, b = rng.choice(self.pairs)
            order = list(range(n))
            rng.shuffle(order)
            scripts[order[0]].append({"op": "parse_string", "text": a, "mode": "exec"})
            scripts[order[1]].append({"op": "parse_string", "text": b, "mode": "exec"})
        elif family == "same":
            op = self.pick(rng)
            for k in rng.sample(range(n), 2):
                scripts[k].append(dict(op))
        elif family == "carrier" and self.carriers:
            for k in range(n):
                scripts[k].append(dict(rng.choice(self.carriers)))
        for k in range(n):
            want = 0 if warn_run else rng.randrange(1, 5)
            while len(scripts[k]) < want:
                scripts[k].append(self.pick(rng))
            rng.shuffle(scripts[k])
            if rng.random() < 0.02:
                scripts[k].insert(rng.randrange(len(scripts[k]) + 1), {"op": "flood", "n": 40, "tag": f"s{i}_{k}"})
            scripts[k] = self._assign_slots(rng, scripts[k], f"t{k}_", replace=not warn_run)
            scripts[k] = self._add_faults(rng, scripts[k], 0.12, 0.06, 0.15)
            if len(scripts[k]) >= 2 and rng.random() < 0.1:
                # the client goes on in a fresh thread half-way through its calls
                pos = rng.randrange(1, len(scripts[k]))
                if not (scripts[k][pos].get("fault") or {}).get("kind") == "abort":  # keep a copy and its faulted twin together
                    scripts[k].insert(pos, {"op": "respawn", "id": 1000 + pos})
        est = sum(20000 + 3000 * len(op.get("text", "")) + 12000 * op.get("n", 0) for s in scripts for op in s)
        # a slice of the runs pre-empts at bytecode granularity (about 5x the events per line)
        gran = "line"
        if rng.random() < TIERS[tier]["instr_frac"] and sum(len(op.get("text", "")) for s in scripts for op in s) <= 160:
            gran = "instruction"
            est *= 6
        return {
            "engine": "schedule",
            "run": i,
            "warn_errors": warn_run,
            "sim_clock": rng.random() < 0.5,
            "policy_hint": "uniform-hot" if warn_run and rng.random() < 0.7 else None,
            "granularity": gran,
            "threads": scripts,
            "seed_parts": [SEED, PROP, "sched", i],
            "horizon": max(2000, est // 12),
            "cap": 50 * est,
            "wall": 600.0,
        }

    def history_task(self, i: int, tier: str) -> dict:
        rng = rng_for(SEED, PROP, "hist", i)
        n_ops = rng.randrange(5, 41)
        long_history = rng.random() < 0.03
        if long_history:
            # "influenced by the 1,000 parses before it": bounded caches only misbehave once they overflow
            n_ops = rng.randrange(300, 1500)
        script: list[dict] = []
        while len(script) < n_ops:
            r = rng.random()
            if r < 0.2:
                a, b = rng.choice(self.pairs)
                script.append({"op": "parse_string", "text": a, "mode": "exec"})
                script.append({"op": "parse_string", "text": b, "mode": "exec"})
                if rng.random() < 0.5:
                    script.append({"op": "parse_string", "text": a, "mode": "exec"})
            elif r < 0.35 and script:
                script.append({k: v for k, v in rng.choice(script).items()})
            elif long_history:
                script.append(dict(rng.choice(self.small)))
            elif r > 0.985 and self.big:
                script.append({k: v for k, v in rng.choice(self.big).items() if k != "big"})

            else:
                script.append(self.pick(rng, small_bias=0.55))
        if rng.random() < 0.025:
            # sized against the usual cache capacities (128 ... 8192); every flood text holds two new string literals
            script.insert(rng.randrange(len(script) // 2 + 1),
                          {"op": "flood", "n": rng.choice([500, 2500, 6000, 12000]), "tag": f"h{i}"})
        n_faults = rng.choice([0, 1, 1, 2, 3, 4])
        p = n_faults / max(1, len(script))
        if rng.random() < 0.08 and not long_history:
            # a caller that moves between two working directories and names its files relative to them
            out2, where = [], 0
            for op in script:
                if rng.random() < 0.3:
                    where = 1 - where
                    out2.append({"op": "chdir", "to": where})
                if op.get("op") == "parse_file":
                    op = dict(op)
                    op["rel"] = True
                out2.append(op)
            script = [{"op": "chdir", "to": 0}] + out2
        warn_run = rng.random() < 0.05 and bool(self.warnish) and not long_history
        if warn_run:
            script = [dict(rng.choice(self.warnish)) for _ in range(len([o for o in script if "text" in o]))]
        script = self._assign_slots(rng, script, "h", replace=not warn_run)
        ops = self._add_faults(rng, script, p * 0.6, p * 0.25, 0.3, recursion=n_faults > 0)
        if warn_run:
            for op in ops:
                if "text" in op:
                    op["warn"] = True
        return {"engine": "history", "run": i, "ops": ops, "warn_errors": warn_run, "sim_clock": rng.random() < 0.5,
                "fd_limit": rng.choice([None, None, 40, 64]), "gc_every": rng.choice([None, None, 1, 3, 7])}


# ----------------------------------------------------------------------------------------------
# judging


def _okind(o) -> str:
    if not o:
        return "none"
    if o[0] in ("syntax", "exc"):
        return f"{o[0]}:{o[1]}"
    return str(o[0])


def _osite(o) -> str:
    if o and o[0] == "syntax":
        return str(o[9])
    if o and o[0] == "exc":
        return str(o[3])
    if o and o[0] == "budget":
        return str(o[1]).split(":")[0]
    return "-"


def judge(res: dict, golden: dict[str, tuple]) -> list[dict]:
    """Violations of one run, as dicts with a `key` (class) and details."""
    out = []
    for t, recs in enumerate(res["results"]):
        for idx, rec in enumerate(recs):
            o = rec.get("outcome")
            if rec.get("key") is None or o is None:
                continue
            if rec.get("fault"):
                continue  # the property is silent about an op that was itself given a fault
            if o[0] == "budget":
                out.append({"kind": "budget", "key": f"budget|{_osite(o)}", "thread": t, "op_index": idx,
                            "expected": None, "got": o})
                continue
            exp = golden.get(rec["key"])
            if exp is None:
                raise kernel.HarnessError(f"no golden entry for {rec['key']}")
            if tuple(kernel.jsonable_tuple(o)) != tuple(kernel.jsonable_tuple(exp)):
                opk = json.loads(rec["key"])[0]
                out.append({
                    "kind": "mismatch",
                    "key": f"mismatch|{opk}|{_okind(exp)}->{_okind(o)}|{_osite(o)}",
                    "thread": t, "op_index": idx, "expected": exp, "got": o,
                })
    for a in res.get("altered", []):
        out.append({"kind": "tree_altered", "key": "tree_altered", "thread": a["thread"], "op_id": a["id"],
                    "expected": a["before"], "got": a["after"]})
    return out


# ----------------------------------------------------------------------------------------------
# execution of one literal trace (used by the runs, the minimiser and replay)


def trace_of(task: dict, res: dict) -> dict:
    if task["engine"] == "schedule":
        return {"engine": "schedule", "threads": res["threads"], "schedule": res["segments"],
                "cap": task.get("cap"), "granularity": res.get("granularity", task.get("granularity", "line")),
                "warn_errors": bool(task.get("warn_errors")), "sim_clock": bool(task.get("sim_clock")),
                "seed_parts": task.get("seed_parts")}
    return {"engine": "history", "ops": res["ops"], "warn_errors": bool(task.get("warn_errors")),
            "sim_clock": bool(task.get("sim_clock")), "fd_limit": task.get("fd_limit"), "gc_every": task.get("gc_every"),
            "run": task.get("run")}


def run_trace(trace: dict, wall: float = 300.0):
    if trace["engine"] == "schedule":
        task = {"threads": copy.deepcopy(trace["threads"]), "schedule": trace.get("schedule") or [],
                "cap": trace.get("cap") or 50_000_000, "wall": wall, "granularity": trace.get("granularity", "line"),
                "engine": "schedule", "run": -1, "warn_errors": bool(trace.get("warn_errors")),
                "sim_clock": bool(trace.get("sim_clock")), "seed_parts": trace.get("seed_parts")}
        return kernel.run_in_child(_run_one, task, wall + 30)
    task = {"ops": copy.deepcopy(trace["ops"]), "engine": "history", "run": trace.get("run", -1),
            "warn_errors": bool(trace.get("warn_errors")), "sim_clock": bool(trace.get("sim_clock")),
            "fd_limit": trace.get("fd_limit"), "gc_every": trace.get("gc_every")}
    return kernel.run_in_child(_run_one, task, wall + 30)


def trace_size(trace: dict) -> int:
    if trace["engine"] == "schedule":
        return sum(len(s) for s in trace["threads"]) * 1000 + len(trace.get("schedule") or [])
    return len(trace["ops"]) * 1000


def reproduces(trace: dict, golden, key: str) -> dict | None:
    st, res = run_trace(trace)
    if st != "ok" or not res.get("finished"):
        return None
    try:
        vs = judge(res, golden)
    except kernel.HarnessError:
        return None
    for v in vs:
        if v["key"] == key:
            return v
    return None


def _ddmin_list(items: list, test, budget: list[int]) -> list:
    """Classic ddmin over a list; `test(sub)` says whether the violation persists."""
    n = 2
    while len(items) >= 2 and budget[0] > 0:
        chunk = max(1, len(items) // n)
        reduced = False
        for start in range(0, len(items), chunk):
            cand = items[:start] + items[start + chunk:]
            if not cand:
                continue
            budget[0] -= 1
            if test(cand):
                items = cand
                n = max(n - 1, 2)
                reduced = True
                break
            if budget[0] <= 0:
                break
        if not reduced:
            if chunk == 1:
                break
            n = min(len(items), n * 2)
    return items


def minimise(trace: dict, golden, key: str, max_candidates: int, seconds: float = 120.0) -> tuple[dict, int]:
    budget = [max_candidates]
    used0 = budget[0]
    trace = copy.deepcopy(trace)
    deadline = time.monotonic() + seconds

    def ok(t):
        if time.monotonic() > deadline:
            budget[0] = 0  # a trace with a 12 000-call flood costs 15 s per candidate: stop, keep what we have
            return False
        return reproduces(t, golden, key) is not None

    if trace["engine"] == "history":
        def test_ops(sub):
            t = dict(trace)
            t["ops"] = sub
            return ok(t)

        trace["ops"] = _ddmin_list(trace["ops"], test_ops, budget)
        # drop fault annotations that are not needed
        for j in range(len(trace["ops"])):
            if trace["ops"][j].get("fault") and budget[0] > 0:
                t = copy.deepcopy(trace)
                t["ops"][j].pop("fault")
                budget[0] -= 1
                if ok(t):
                    trace = t
        return trace, used0 - budget[0]

    # schedule engine: threads -> schedule -> ops -> faults
    for k in range(len(trace["threads"])):
        if trace["threads"][k] and budget[0] > 0:
            t = copy.deepcopy(trace)
            t["threads"][k] = []
            budget[0] -= 1
            if ok(t):
                trace = t

    for k in range(len(trace["threads"])):
        if len(trace["threads"][k]) > 1 and budget[0] > 0:
            def test_ops(sub, k=k):
                t = copy.deepcopy(trace)
                t["threads"][k] = sub
                return ok(t)

            trace["threads"][k] = _ddmin_list(trace["threads"][k], test_ops, budget)

    def test_sched(sub):
        t = dict(trace)
        t["schedule"] = sub
        return ok(t)

    budget[0] -= 1
    if test_sched([]):
        trace["schedule"] = []
    else:
        trace["schedule"] = _ddmin_list(trace["schedule"], test_sched, budget)
    for k in range(len(trace["threads"])):
        for j in range(len(trace["threads"][k])):
            if trace["threads"][k][j].get("fault") and budget[0] > 0:
                t = copy.deepcopy(trace)
                t["threads"][k][j].pop("fault")
                budget[0] -= 1
                if ok(t):
                    trace = t
    # merge neighbouring segments of the same thread (cosmetic, keeps semantics)
    return trace, used0 - budget[0]


# ----------------------------------------------------------------------------------------------
# the check


def _run_one(task: dict) -> dict:
    if task.get("warn_errors"):
        import warnings

        warnings.simplefilter("error")  # the process was started with -W error
    else:
        import warnings

        warnings.simplefilter("ignore", SyntaxWarning)  # keep the literal evaluator's warnings off the log
    sys.unraisablehook = id  # a no-op that needs no Python frame (generators finalised at the recursion limit)
    if task["engine"] == "schedule":
        res = worlda.run_schedule_task(task)
    else:
        res = worlda.run_history_task(task)
    res["engine"] = task["engine"]
    res["run"] = task["run"]
    return res


def golden_for(ops: list[dict], hashseeds=("0", None)) -> tuple[dict, list[dict]]:
    """Golden table from fresh interpreters under two hash seeds; disagreements are violations."""
    hs2 = hashseeds[1] or str(rng_for(SEED, PROP, "hashseed").randrange(1, 2**32 - 1))
    g0 = worlda.compute_golden(ops, hashseeds[0])
    g1 = worlda.compute_golden(ops, hs2)
    bad = []
    for k, v in g0.items():
        if v and v[0] == "harness-error":
            raise kernel.HarnessError(f"golden op failed in harness: {k}: {kernel.short(v)}")
        if v and v[0] == "harness-timeout":
            continue  # does not terminate even alone in a fresh interpreter: C03's matter, kept out of the pool
        if kernel.jsonable_tuple(v) != kernel.jsonable_tuple(g1.get(k)):
            bad.append({"kind": "hashseed", "key": f"hashseed|{_okind(v)}->{_okind(g1.get(k))}",
                        "op": json.loads(k), "expected": v, "got": g1.get(k), "hashseeds": [hashseeds[0], hs2]})
    return g0, bad


def ops_of_task(task: dict) -> list[dict]:
    if task["engine"] == "schedule":
        return [op for s in task["threads"] for op in s if "text" in op]
    return [op for op in task["ops"] if "text" in op]


def check(tier: str) -> int:
    t0 = time.monotonic()
    cfg = TIERS[tier]
    print(f"VERIF_SEED={SEED} property={PROP} tier={tier} jobs={kernel.JOBS} repo={kernel.REPO}")
    worlda.init_world()
    texts = pool.build_pool()
    specs = build_opspecs(texts)
    tg = time.monotonic()
    golden, hs_bad = golden_for(specs)
    golden_s = time.monotonic() - tg
    hung = {k for k, v in golden.items() if v and v[0] == "harness-timeout"}
    if hung:
        print(f"{len(hung)} ops do not terminate on their own in a fresh interpreter; excluded (see C03)")
    specs = [s for s in specs if worlda.op_key(s) not in hung]
    wl = Workload(specs, golden)
    tasks = [wl.schedule_task(i, tier) for i in range(cfg["sched"])]
    tasks += [wl.history_task(i, tier) for i in range(cfg["hist"])]
    print(f"golden table: {len(golden)} ops from fresh interpreters x 2 hash seeds in {golden_s:.1f}s; "
          f"hash-seed disagreements: {len(hs_bad)}")

    report = Report(PROP)
    for b in hs_bad:
        report.add(b["key"], {"size": len(json.dumps(b["op"])), "summary": b, "trace": None, "violation": b})

    stats = {
        "sched_runs": 0, "hist_runs": 0, "steps": 0, "switches": 0, "overlap_switches": 0,
        "aborts": {}, "abort_results": {}, "cancels": 0, "recursion_faults": {}, "mutations": 0,
        "policies": {}, "granularity": {}, "ops_by_grammar_level": {}, "ops_on_texts_beyond_the_recursion_limit": 0,
        "verbose_ops": 0, "ops_by_entry": {}, "pinned_clock_runs": 0, "ops_judged": 0, "ops_total": 0, "harness_timeouts": 0, "retried_after_timeout": 0,
    }
    deep_texts = set(pool.DEEP)
    sched_sigs, sched_sigs_nontrivial, hist_sigs, hist_sigs_nontrivial = set(), set(), set(), set()
    fn_pairs = set()
    samples = []
    examples: dict[str, tuple[dict, dict, dict]] = {}  # key -> (task, res, violation)
    tr = time.monotonic()

    def results():
        """All runs; a run that fell to the wall-clock safety net (a loaded machine makes 300 000 thread hand-overs
        slow) is repeated once, alone, with a longer guard — a time-out is never a pass, but it is not evidence either."""
        again = []
        for idx, (status, res) in kernel.run_tasks(_run_one, tasks, wall_timeout=800.0):
            if status == "harness-timeout" or (status == "ok" and not res.get("finished") and not res.get("errors")):
                again.append(idx)
                continue
            yield idx, (status, res)
        for n_again, idx in enumerate(again):
            if n_again >= 3:
                # more than a handful of time-outs is not "a loaded machine": report, do not spend hours repeating
                yield idx, ("harness-timeout", "fell to the wall-clock guard (not repeated: too many such runs)")
                continue
            stats["retried_after_timeout"] += 1
            t2 = copy.deepcopy(tasks[idx])
            t2["wall"] = 1200.0
            yield idx, kernel.run_in_child(_run_one, t2, 1300.0)

    for idx, (status, res) in results():
        task = tasks[idx]
        if status != "ok":
            stats["harness_timeouts"] += 1
            report.harness(f"{task['engine']} run {task['run']}: {status}: {res}")
            continue
        if res.get("errors"):
            report.harness(f"{task['engine']} run {task['run']}: {res['errors'][0]}")
            continue
        if not res.get("finished"):
            report.harness(f"{task['engine']} run {task['run']}: did not finish within the wall-clock guard")
            continue
        if any(op.get("pin_mtime") for op in ops_of_task(task)):
            stats["pinned_clock_runs"] += 1
        if task["engine"] == "schedule":
            stats["sched_runs"] += 1
            stats["steps"] += res["steps"]
            stats["switches"] += res["switches"]
            stats["overlap_switches"] += res["overlap_switches"]
            g = res.get("granularity", "line")
            stats["granularity"][g] = stats["granularity"].get(g, 0) + 1
            pn = res["policy"]["policy"]
            stats["policies"][pn] = stats["policies"].get(pn, 0) + 1
            sched_sigs.add(res["digest"])
            if res["overlap_switches"] > 0:
                sched_sigs_nontrivial.add(res["digest"])
            fn_pairs.update(tuple(p) for p in res["fn_pairs"])
        else:
            stats["hist_runs"] += 1
            hist_sigs.add(res["digest"])
        nontrivial_hist = False
        seen_keys = set()
        for recs in res["results"]:
            for rec in recs:
                stats["ops_total"] += 1
                f = rec.get("fault")
                if f:
                    nontrivial_hist = True
                    if f["kind"] == "abort":
                        fr = rec.get("fault_result", "?")
                        stats["abort_results"][fr] = stats["abort_results"].get(fr, 0) + 1
                    elif f["kind"] == "cancel":
                        stats["cancels"] += 1
                    elif f["kind"] == "recursion_limit":
                        fr = rec.get("fault_result", "?")
                        stats["recursion_faults"][fr] = stats["recursion_faults"].get(fr, 0) + 1
                elif rec.get("key"):
                    stats["ops_judged"] += 1
                    kk = json.loads(rec["key"])
                    if kk[3]:
                        lv = ".".join(map(str, kk[3]))
                        stats["ops_by_grammar_level"][lv] = stats["ops_by_grammar_level"].get(lv, 0) + 1
                    if kk[1] in deep_texts:
                        stats["ops_on_texts_beyond_the_recursion_limit"] += 1
                    if kk[4]:
                        stats["verbose_ops"] += 1
                    stats["ops_by_entry"][kk[0]] = stats["ops_by_entry"].get(kk[0], 0) + 1
                    if rec["key"] in seen_keys:
                        nontrivial_hist = True
                    seen_keys.add(rec["key"])
                if rec.get("outcome") == ("mutated",):
                    stats["mutations"] += 1
        for kind, fn in res.get("aborts_fired", []):
            k2 = f"{kind}@{fn}"
            stats["aborts"][k2] = stats["aborts"].get(k2, 0) + 1
        if task["engine"] == "history" and nontrivial_hist:
            hist_sigs_nontrivial.add(res["digest"])
        if len(samples) < 4 and (res.get("overlap_switches", 0) > 0 or (task["engine"] == "history" and nontrivial_hist)):
            tr_ = trace_of(task, res)
            if tr_["engine"] == "schedule":
                tr_ = dict(tr_)
                tr_["schedule"] = tr_["schedule"][:12] + (["..."] if len(tr_["schedule"]) > 12 else [])
            samples.append({"run": task["run"], "trace": tr_})
        for v in judge(res, golden):
            cur = examples.get(v["key"])
            size = trace_size(trace_of(task, res))
            report.counts[v["key"]] = report.counts.get(v["key"], 0)  # counted in add()
            if cur is None or (size, task["engine"], task["run"]) < (cur[3], cur[0]["engine"], cur[0]["run"]):
                examples[v["key"]] = (task, res, v, size)
            report.add(v["key"], {"size": size, "summary": {"engine": task["engine"], "run": task["run"],
                                                          "violation": _brief(v)}})
    run_s = time.monotonic() - tr
    if report.violations:
        print(f"runs done in {run_s:.0f}s; {len(report.violations)} unlisted violation classes; minimising up to "
              f"{cfg['min_classes']} of them")
        sys.stdout.flush()

    # minimise + confirm each distinct unknown violation class
    minimised = {}
    tm = time.monotonic()
    order = sorted((k for k in report.violations if not k.startswith("hashseed|")), key=lambda k: (examples[k][3], k))
    for n, key in enumerate(order):
        task, res, v, _ = examples[key]
        trace = trace_of(task, res)
        if n >= cfg["min_classes"] or time.monotonic() - tm > cfg["min_seconds"]:
            minimised[key] = (trace, v, -1, task)  # literal, un-minimised trace: still an exact replay
            continue
        first = reproduces(trace, golden, key)
        if first is None:
            report.harness(f"violation {key} of {task['engine']} run {task['run']} did not reproduce from its own "
                           f"literal trace (non-determinism in the harness or in the system under test)")
            minimised[key] = (trace, v, 0, task)
            continue
        small, used = minimise(trace, golden, key, cfg["min_candidates"],
                               max(20.0, cfg["min_seconds"] - (time.monotonic() - tm)))
        v2 = reproduces(small, golden, key) or first
        minimised[key] = (small, v2, used, task)

    def build_replay(key, ex):
        if key.startswith("hashseed|"):
            b = ex["violation"]
            return {"engine": "golden", "provenance": {"VERIF_SEED": SEED, "tier": tier},
                    "op": b["op"], "hashseeds": b["hashseeds"],
                    "violation": {"kind": "hashseed", "key": key, "expected": b["expected"], "got": b["got"]}}
        trace, v, used, task = minimised[key]
        payload = dict(trace)
        payload["provenance"] = {"VERIF_SEED": SEED, "run": task["run"], "tier": tier, "minimiser_candidates": used}
        payload["violation"] = {"kind": v["kind"], "key": key, "thread": v.get("thread"),
                                "op_index": v.get("op_index"), "expected": v.get("expected"), "got": v.get("got")}
        return payload

    rc = report.finish(build_replay)

    # determinism spot check: three runs re-executed in a fresh interpreter under another hash seed
    spot = spot_check(tasks, [0, cfg["sched"], cfg["sched"] // 2])
    if spot["mismatches"]:
        report.harness(f"determinism spot check failed: {spot}")
        rc = rc or 2

    wall = time.monotonic() - t0
    n_runs = stats["sched_runs"] + stats["hist_runs"]
    coverage = {
        "evaluations": n_runs,
        "distinct_nontrivial": len(sched_sigs_nontrivial) + len(hist_sigs_nontrivial),
        "rule": "one evaluation = one simulated run (schedule engine: 2-4 client threads x 1-5 ops under a seeded "
                "interleaving; history engine: 5-40 sequential ops with 0-4 faults). distinct = distinct event-log "
                "digests; non-trivial = schedule runs with at least one context switch that landed while another "
                "thread had an op in flight, plus history runs containing a fault or a repeated op.",
        "samples": samples,
        "schedule_runs": stats["sched_runs"],
        "history_runs": stats["hist_runs"],
        "distinct_schedule_digests": len(sched_sigs),
        "distinct_history_digests": len(hist_sigs),
        "runs_per_hour": round(n_runs / max(run_s, 1e-9) * 3600),
        "seeds": f"VERIF_SEED={SEED}; run i uses Random('{SEED}/C13/<engine>/i')",
        "simulated_steps": stats["steps"],
        "context_switches": stats["switches"],
        "switches_with_overlap": stats["overlap_switches"],
        "distinct_preempted_resumed_function_pairs": len(fn_pairs),
        "policy_histogram": stats["policies"],
        "runs_by_preemption_granularity": stats["granularity"],
        "faults_fired": {
            "abort_by_kind_and_function_top": dict(sorted(stats["aborts"].items(), key=lambda kv: -kv[1])[:25]),
            "abort_distinct_sites": len(stats["aborts"]),
            "abort_results": stats["abort_results"],
            "cancellations": stats["cancels"],
            "recursion_limit": stats["recursion_faults"],
            "caller_mutations": stats["mutations"],
        },
        "ops_by_entry": stats["ops_by_entry"],
        "ops_by_requested_grammar_level": stats["ops_by_grammar_level"],
        "ops_on_texts_beyond_the_recursion_limit": stats["ops_on_texts_beyond_the_recursion_limit"],
        "verbose_ops": stats["verbose_ops"],
        "runs_with_in_place_rewrites_under_a_pinned_clock": stats["pinned_clock_runs"],
        "ops_total": stats["ops_total"],
        "ops_judged_against_golden": stats["ops_judged"],
        "golden_table_entries": len(golden),
        "ops_excluded_nonterminating": len(hung),
        "golden_hash_seed_disagreements": len(hs_bad),
        "golden_seconds": round(golden_s, 2),
        "pool_texts": len(texts),
        "determinism_spot_check": spot,
        "violation_classes": sorted(report.violations),
        "known_finding_classes": sorted(report.known_hits),
        "harness_problems": len(report.harness_problems),
        "runs_repeated_after_a_wall_clock_timeout": stats["retried_after_timeout"],
        "components": {
            "real": ["peg_parser.tokenize", "peg_parser.tokenizer", "peg_parser.subheader", "peg_parser.parser",
                     "CPython threads (baton-passing, one runnable)", "CPython io / real scratch files"],
            "stub": ["sys.stdout replaced by a sink during runs"],
        },
    }
    kernel.write_evidence(
        PROP, tier, "exploration", coverage,
        ["interleavings are sequentially consistent under one runnable thread (GIL model); pre-emption at source-line granularity, at bytecode granularity for a slice of the runs",
         "C code (re, lru_cache, io) is atomic in the simulation",
         "the reference outcome of an op is what one fresh interpreter returns for it (two hash seeds must agree)",
         "MemoryError/KeyboardInterrupt are injected as exceptions at a step, not as failed allocations in C"],
        wall, len(report.violations))
    print(f"{PROP} {tier}: {n_runs} runs ({stats['sched_runs']} schedule, {stats['hist_runs']} history), "
          f"{stats['steps']} steps, {stats['switches']} switches, {len(report.violations)} violation classes, "
          f"{len(report.known_hits)} known, wall {wall:.1f}s, exit {rc}")
    return rc


def _brief(v: dict) -> dict:
    return {"kind": v["kind"], "key": v["key"], "expected": kernel.short(v.get("expected"), 160),
            "got": kernel.short(v.get("got"), 160)}


# ----------------------------------------------------------------------------------------------
# determinism


def spot_check(tasks: list[dict], indices: list[int]) -> dict:
    """Re-execute some runs in a fresh interpreter with a different PYTHONHASHSEED; digests must match."""
    indices = [i for i in indices if 0 <= i < len(tasks)]
    local = {}
    for i in indices:
        st, res = kernel.run_in_child(_run_one, copy.deepcopy(tasks[i]), 400.0)
        local[i] = res["digest"] if st == "ok" else f"{st}"
    remote = digests_in_fresh_interpreter([tasks[i] for i in indices], hashseed="12345")
    mism = [i for i, d in zip(indices, remote) if local[i] != d]
    return {"runs": len(indices), "mismatches": mism}


def digests_in_fresh_interpreter(tasks: list[dict], hashseed: str) -> list[str]:
    import pickle
    import tempfile

    d = tempfile.mkdtemp(prefix="vsim-det-")
    try:
        ip, op = os.path.join(d, "in.pkl"), os.path.join(d, "out.pkl")
        with open(ip, "wb") as f:
            pickle.dump(tasks, f)
        env = dict(os.environ)
        env["PYTHONHASHSEED"] = hashseed
        env["VERIF_REPO"] = kernel.REPO
        code = ("import sys; sys.path.insert(0, %r); from vsimlib import c13; c13._digest_server(%r, %r)"
                % (kernel.VERIF, ip, op))
        subprocess.run([sys.executable, "-c", code], env=env, check=True, timeout=3600)
        with open(op, "rb") as f:
            return pickle.load(f)
    finally:
        import shutil

        shutil.rmtree(d, ignore_errors=True)


def _digest_server(ip: str, op: str) -> None:
    import pickle

    worlda.init_world()
    with open(ip, "rb") as f:
        tasks = pickle.load(f)
    out = []
    for t in tasks:
        st, res = kernel.run_in_child(_run_one, t, 400.0)
        out.append(res["digest"] if st == "ok" else f"{st}")
    with open(op, "wb") as f:
        pickle.dump(out, f)


def digests_cli(n: int) -> list[str]:
    """Digests of the first n/2 schedule and n/2 history runs of this VERIF_SEED (determinism self-test)."""
    worlda.init_world()
    specs = build_opspecs(pool.build_pool())
    wl = Workload(specs)
    tasks = [wl.schedule_task(i, "quick") for i in range(n // 2)] + [wl.history_task(i, "quick") for i in range(n // 2)]
    out = [""] * len(tasks)
    for idx, (st, res) in kernel.run_tasks(_run_one, tasks, wall_timeout=400.0):
        out[idx] = res["digest"] if st == "ok" else st
    return out


# ----------------------------------------------------------------------------------------------
# replay


def replay(path: str) -> int:
    with open(path, encoding="utf-8") as f:
        data = json.load(f)
    cur = kernel.tree_digest()
    if data.get("tree") and data["tree"] != cur:
        changed = sorted(k for k in set(cur) | set(data["tree"]) if cur.get(k) != data["tree"].get(k))
        print(f"note: source tree differs from the one the replay was recorded on: {changed[:6]}")
    key = data["violation"]["key"]
    if data["engine"] == "golden":
        op = {k: data["op"][i] for i, k in enumerate(["op", "text", "mode", "py_version", "verbose"])}
        a = worlda.compute_golden([op], data["hashseeds"][0], jobs=1)
        b = worlda.compute_golden([op], data["hashseeds"][1], jobs=1)
        same = kernel.jsonable_tuple(list(a.values())[0]) == kernel.jsonable_tuple(list(b.values())[0])
        print("REPRODUCED" if not same else "NOT-REPRODUCED", key)
        return 1 if not same else 0
    worlda.init_world()
    trace = {k: data[k] for k in ("engine", "threads", "schedule", "ops", "cap", "granularity", "warn_errors", "sim_clock", "seed_parts",
                                     "fd_limit", "gc_every", "run") if k in data}
    ops = ops_of_task(trace)
    golden, _ = golden_for(ops)
    v = reproduces(trace, golden, key)
    if v is None:
        st, res = run_trace(trace)
        others = [x["key"] for x in judge(res, golden)] if st == "ok" else [st]
        print(f"NOT-REPRODUCED {key}; other violations seen: {others}")
        return 0
    print(f"REPRODUCED {key}\n  expected: {kernel.short(v.get('expected'), 500)}\n  got:      {kernel.short(v.get('got'), 500)}")
    return 1
