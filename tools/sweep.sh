#!/bin/bash
# No-false-alarm sweep: quick tier of every check at several VERIF_SEED values on the unchanged tree.
# Evidence and replays go to a scratch directory so that the committed evidence is not overwritten.
out=$(mktemp -d /tmp/vsim-sweep-XXXXXX); trap 'rm -rf "$out"' EXIT
bad=0
for s in "$@"; do for p in C13 C12 C03 C11 C16; do
  VERIF_SEED=$s VERIF_EVIDENCE_DIR=$out VERIF_REPLAY_DIR=$out /venv/bin/python "$(dirname "$0")/../vsim" check $p --tier quick > $out/log 2>&1; r=$?
  echo "seed=$s $p exit=$r $(tail -1 $out/log | cut -c1-160)"; [ $r -ne 0 ] && { bad=$((bad+1)); grep -A1 '^VIOLATION\|HARNESS' $out/log | cut -c1-300 | head -8; }
done; done
echo "sweep: $bad non-zero exits"; exit $bad
