#!/bin/bash
# Re-run the five quick checks against /repo (VERIF_SEED=0) so that evidence/*.json is what the committed
# machinery produces, then validate MANIFEST and evidence against the schemas.
cd /verif || exit 2
rc=0
for p in C13 C12 C03 C11 C16; do
  VERIF_SEED=0 /venv/bin/python /verif/vsim check $p --tier ${TIER:-quick} > /tmp/regen.$p.log 2>&1; r=$?
  echo "$p exit=$r $(tail -1 /tmp/regen.$p.log | cut -c1-200)"; [ $r -ne 0 ] && rc=1
done
python3-vt - <<'PY'
import json, jsonschema
jsonschema.validate(json.load(open('/verif/MANIFEST.json')), json.load(open('/root/.vp/MANIFEST.schema.json')))
for p in ['C03','C11','C12','C13','C16']:
    jsonschema.validate(json.load(open(f'/verif/evidence/{p}.json')), json.load(open('/root/.vp/EVIDENCE.schema.json')))
print('MANIFEST and evidence validate')
PY
rm -f /verif/replays/*.json
exit $rc
