#!/bin/bash
# usage: try_seeded.sh <patch.diff> <demo.py> <check> [<check> ...]
# Confirms a seeded change in a scratch worktree (suite passes, demo fails with / passes without), then
# runs the named checks against it.  Never touches /repo's working tree.
set -u
patch=$1; demo=$2; shift 2
wt=$(mktemp -d /tmp/vsim-seed-XXXXXX); rmdir "$wt"
git -C /repo worktree add -q --detach "$wt" HEAD || exit 2
trap 'git -C /repo worktree remove --force "$wt" >/dev/null 2>&1; rm -rf "$wt"' EXIT
cd "$wt"
echo "== demo without the change"; PYTHONPATH=$wt timeout 600 /venv/bin/python "$demo" >/tmp/demo_without.$$ 2>&1; echo "exit=$? $(tail -1 /tmp/demo_without.$$)"
git apply "$patch" || { echo "PATCH DOES NOT APPLY"; exit 2; }
echo "== suite with the change"; PYTHONPATH=$wt timeout 1200 /venv/bin/python -m pytest -q -p no:cacheprovider --timeout=900 2>&1 | tail -1
echo "== demo with the change"; PYTHONPATH=$wt timeout 600 /venv/bin/python "$demo" >/tmp/demo_with.$$ 2>&1; echo "exit=$? $(tail -1 /tmp/demo_with.$$)"
rm -f /tmp/demo_with.$$ /tmp/demo_without.$$
find "$wt" -name __pycache__ -type d -prune -exec rm -rf {} + 2>/dev/null
for c in "$@"; do
  echo "== check $c"
  VERIF_REPO=$wt VERIF_REPLAY_DIR=$wt/_replays VERIF_EVIDENCE_DIR=$wt/_evidence timeout 3000 /venv/bin/python /verif/vsim check $c --tier ${TIER:-quick} > $wt/_out.$c 2>&1; rc=$?
  echo "exit=$rc violations=$(grep -c '^VIOLATION' $wt/_out.$c)"; grep -A1 '^VIOLATION' $wt/_out.$c | grep 'key=' | cut -c1-260 | head -4; tail -1 $wt/_out.$c | cut -c1-300
  if [ $rc -eq 1 ]; then r=$(grep -m1 '^VIOLATION' $wt/_out.$c | sed 's/.*replay=//'); VERIF_REPO=$wt /venv/bin/python /verif/vsim replay $r 2>&1 | head -2 | cut -c1-300; [ -n "${KEEP_REPLAY:-}" ] && cp $r "$KEEP_REPLAY"; fi
done
